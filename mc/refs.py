"""Reference models built on exact.py: convex solids, general meshes, tolerances."""
import math

import numpy as np

from . import exact as X


def diameter(P):
    P = np.asarray(P, float)
    if len(P) > 60:
        # bounding-box diagonal is enough for a scale
        return float(np.linalg.norm(P.max(0) - P.min(0)))
    d = P[:, None, :] - P[None, :, :]
    return float(np.sqrt((d * d).sum(-1)).max())


def scales(P):
    """L = diameter, D = L + distance of the bounding-box centre from the origin."""
    P = np.asarray(P, float)
    L = diameter(P)
    c = 0.5 * (P.max(0) + P.min(0))
    return L, L + float(np.linalg.norm(c))


def qhull_hint_faces(float_pts):
    """Triangulated hull from qhull, used only as an untrusted hint."""
    from scipy.spatial import ConvexHull

    h = ConvexHull(np.asarray(float_pts, float))
    return [list(map(int, s)) for s in h.simplices], sorted(map(int, h.vertices))


def certified_hull_triangles(float_pts, rel_tol=1e-11):
    """Outward-oriented closed triangle mesh of conv(pts), certified in exact arithmetic:
    closed oriented 2-manifold, every input point on or below every triangle plane (to
    rel_tol * L, evaluated exactly).  Returns (tris, Pint, e) or raises."""
    Pint, e = X.ints_from_floats(float_pts)
    tris, hv = qhull_hint_faces(float_pts)
    n = len(Pint)
    cen = tuple(sum(p[m] for p in Pint) for m in range(3))  # n * centroid
    out = []
    L = diameter(float_pts)
    for t in tris:
        a, b, c = Pint[t[0]], Pint[t[1]], Pint[t[2]]
        nr = X.cross(X.sub(b, a), X.sub(c, a))
        # orient away from the vertex mean
        s = X.dot(nr, cen) - n * X.dot(nr, a)
        if s > 0:
            t = [t[0], t[2], t[1]]
            nr = tuple(-x for x in nr)
        elif s == 0:
            raise X.Degenerate("hint triangle through the vertex mean")
        out.append(t)
        nn = math.sqrt(X.fl(X.dot(nr, nr)))
        da = X.dot(nr, a)
        for p in Pint:
            v = X.dot(nr, p) - da
            if v > 0 and X.fl(v) / nn / (2.0**e) > rel_tol * L:
                raise X.Degenerate("hint hull is not convex: point above facet by %g" % (X.fl(v) / nn / 2.0**e))
    if not X.mesh_is_closed_oriented(out):
        raise X.Degenerate("hint hull is not a closed oriented manifold")
    return out, Pint, e, hv


class ConvexRef:
    """Exact reference for the convex hull of float points.

    If `lattice` (integer points, same order) is given, the combinatorics (facets as
    ccw vertex cycles) come from the exact hull of the lattice points - the float points
    are an affine image, which preserves them; metric quantities are then integrated
    exactly over the float coordinates themselves."""

    def __init__(self, float_pts, lattice=None):
        self.F = np.asarray(float_pts, float)
        self.L, self.D = scales(self.F)
        self.Pint, self.e = X.ints_from_floats(self.F)
        if lattice is not None:
            facets = X.hull_facets([tuple(p) for p in lattice])
            self.faces = [list(ext) for _, _, _, ext in facets]
            self.hull_vertices = sorted(set(i for f in self.faces for i in f))
            # orientation may flip if the placement is improper; detect from volume sign
            V6, _, _ = X.mesh_raw_moments(self.Pint, self.faces)
            if V6 < 0:
                self.faces = [f[::-1] for f in self.faces]
            self.exact_structure = True
        else:
            tris, _, _, hv = certified_hull_triangles(self.F)
            self.faces = tris
            self.hull_vertices = hv
            self.exact_structure = False
        self.V, self.centroid, self.I = X.solid_measures(self.Pint, self.faces, self.e)

    def face_key(self, f):
        return frozenset(int(i) for i in f)

    def areas(self):
        return {self.face_key(f): X.tri_area_sum(self.Pint, f, self.e) for f in self.faces}

    def total_area(self):
        return sum(X.tri_area_sum(self.Pint, f, self.e) for f in self.faces)

    def face_centroids(self):
        return {self.face_key(f): X.face_centroid(self.Pint, f, self.e) for f in self.faces}

    def group_by(self, impl_faces):
        """Map each implementation face (vertex set) to the reference faces contained
        in it; None if some reference face is in no implementation face."""
        keys = [self.face_key(f) for f in impl_faces]
        groups = {k: [] for k in keys}
        for f in self.faces:
            fk = self.face_key(f)
            home = [k for k in keys if fk <= k]
            if len(home) != 1:
                return None
            groups[home[0]].append(f)
        return groups


class MeshRef:
    """Exact reference for a closed outward-oriented mesh with planar convex faces."""

    def __init__(self, float_pts, faces):
        self.F = np.asarray(float_pts, float)
        self.faces = [list(map(int, f)) for f in faces]
        self.L, self.D = scales(self.F)
        self.Pint, self.e = X.ints_from_floats(self.F)
        V6, _, _ = X.mesh_raw_moments(self.Pint, self.faces)
        if V6 < 0:
            self.faces = [f[::-1] for f in self.faces]
        self.V, self.centroid, self.I = X.solid_measures(self.Pint, self.faces, self.e)

    def areas(self):
        return [X.tri_area_sum(self.Pint, f, self.e) for f in self.faces]

    def total_area(self):
        return sum(self.areas())


def close(a, b, tol):
    a = np.asarray(a, float)
    b = np.asarray(b, float)
    if a.shape != b.shape:
        return False
    if not (np.all(np.isfinite(a))):
        return False
    return bool(np.max(np.abs(a - b)) <= tol) if a.size else True


def maxerr(a, b):
    a = np.asarray(a, float)
    b = np.asarray(b, float)
    if a.shape != b.shape:
        return float("inf")
    with np.errstate(all="ignore"):
        d = np.abs(a - b)
    if not np.all(np.isfinite(d)):
        return float("inf")
    return float(d.max()) if d.size else 0.0


def dist_points_to_triangles(pts, tris):
    """Min distance from each point (N,3) to a set of triangles (T,3,3), float numpy.
    Used only for the 'not within a margin of the boundary' filter."""
    pts = np.asarray(pts, float)
    tris = np.asarray(tris, float)
    best = np.full(len(pts), np.inf)

    def seg(p, a, b):
        ab = b - a
        t = np.clip(((p - a) @ ab) / max(float(ab @ ab), 1e-300), 0.0, 1.0)
        return np.linalg.norm(p - (a + t[:, None] * ab), axis=1)

    for a, b, c in tris:
        n = np.cross(b - a, c - a)
        nn = np.linalg.norm(n)
        d = np.minimum(np.minimum(seg(pts, a, b), seg(pts, b, c)), seg(pts, c, a))
        if nn > 0:
            n = n / nn
            h = (pts - a) @ n
            q = pts - h[:, None] * n
            ins = np.ones(len(pts), bool)
            for x, y in ((a, b), (b, c), (c, a)):
                ins &= np.cross(y - x, q - x) @ n >= 0
            d = np.where(ins, np.abs(h), d)
        best = np.minimum(best, d)
    return best


def fan_triangles(V, faces):
    V = np.asarray(V, float)
    out = []
    for f in faces:
        for i in range(1, len(f) - 1):
            out.append((V[f[0]], V[f[i]], V[f[i + 1]]))
    return out
