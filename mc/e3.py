"""E3 - stateless choice-point / fault-schedule exploration with iterative deviation bounding.

The only nondeterminism in coxeter is the minimal-bounding-ball path: `miniball` draws
pivots with `random.choice`, and coxeter retries up to ten times under a rotation drawn
from `rowan.random.rand` when miniball raises LinAlgError.  Both seams are module
attributes; the harness owns them while an execution runs.
"""
import contextlib

import numpy as np


class Chooser:
    """Replays a prefix of choices, then takes choice 0 (the default) at every later point."""

    def __init__(self, prefix):
        self.prefix = list(prefix)
        self.trace = []
        self.widths = []

    def choice(self, seq):
        seq = list(seq)
        i = len(self.trace)
        c = self.prefix[i] if i < len(self.prefix) else 0
        if c >= len(seq):
            raise RuntimeError("replay diverged: choice %d out of range %d at point %d" % (c, len(seq), i))
        self.trace.append(c)
        self.widths.append(len(seq))
        return seq[c]


ROT_ALPHABET = [
    np.array([1.0, 2.0, 3.0, 4.0]) / np.sqrt(30.0),
    np.array([2.0, -1.0, 5.0, 3.0]) / np.sqrt(39.0),
]


@contextlib.contextmanager
def owned_seams(chooser=None, fail_first=0, rotations=(), count=None):
    """Patch miniball.random.choice (pivots), miniball.get_bounding_ball (injected
    LinAlgError for the first `fail_first` calls) and rowan.random.rand (rotation k of the
    schedule, default alphabet element 0)."""
    import random as _random

    import miniball
    import rowan

    real_choice = _random.choice
    real_ball = miniball.get_bounding_ball
    real_rand = rowan.random.rand
    state = {"calls": 0, "rands": 0}

    def ball(S, *a, **k):
        state["calls"] += 1
        if state["calls"] <= fail_first:
            raise np.linalg.LinAlgError("injected")
        return real_ball(S, *a, **k)

    def rand(*a, **k):
        i = state["rands"]
        state["rands"] += 1
        r = rotations[i] if i < len(rotations) else 0
        return ROT_ALPHABET[r].copy()

    try:
        if chooser is not None:
            _random.choice = chooser.choice
        miniball.get_bounding_ball = ball
        rowan.random.rand = rand
        yield state
    finally:
        _random.choice = real_choice
        miniball.get_bounding_ball = real_ball
        rowan.random.rand = real_rand
        if count is not None:
            count.update(state)


def explore_pivots(run, bound, limit=None):
    """run(chooser) -> outcome.  Enumerate every choice sequence with at most `bound`
    deviations from the default choice (iterative deviation bounding, stateless).
    Returns list of (prefix, outcome) and whether the enumeration was cut by `limit`."""
    results = []
    stack = [((), 0)]
    cut = False
    while stack:
        prefix, dev = stack.pop()
        ch = Chooser(prefix)
        out = run(ch)
        results.append((tuple(ch.trace), out))
        if limit is not None and len(results) >= limit:
            cut = bool(stack)
            break
        if dev < bound:
            for i in range(len(prefix), len(ch.trace)):
                for alt in range(1, ch.widths[i]):
                    stack.append((tuple(ch.trace[:i]) + (alt,), dev + 1))
    return results, cut
