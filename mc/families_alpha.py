"""FAM and ELL alphabets: vertex sets taken from the repository's data files (as plain
data, without executing coxeter.families) and own generators."""
import json
import math
import os

from .common import REPO

DATA = os.path.join(REPO, "coxeter", "families", "data")
TAB_FILES = ["platonic", "archimedean", "catalan", "johnson", "prism_antiprism", "pyramid_dipyramid", "science1220869"]


def tabulated(which=None):
    """[(family, name, vertices)] straight from the JSON files."""
    out = []
    for fam in which or TAB_FILES:
        p = os.path.join(DATA, fam + ".json")
        try:
            with open(p) as f:
                d = json.load(f)
        except Exception:
            continue
        for name, spec in d.items():
            v = spec.get("vertices")
            if v and len(v) >= 4:
                out.append((fam, name, v))
    return out


def prism(n, h=1.0, r=1.0, twist=0.0):
    top = [(r * math.cos(2 * math.pi * i / n), r * math.sin(2 * math.pi * i / n), h / 2) for i in range(n)]
    bot = [(r * math.cos(2 * math.pi * i / n + twist), r * math.sin(2 * math.pi * i / n + twist), -h / 2) for i in range(n)]
    return top + bot


def antiprism(n, h=1.0, r=1.0):
    return prism(n, h, r, twist=math.pi / n)


def pyramid(n, h=1.0, r=1.0):
    return [(r * math.cos(2 * math.pi * i / n), r * math.sin(2 * math.pi * i / n), 0.0) for i in range(n)] + [(0.0, 0.0, h)]


def dipyramid(n, h=1.0, r=1.0):
    return pyramid(n, h, r) + [(0.0, 0.0, -h)]


def generated():
    out = []
    for n in range(3, 13):
        out.append(("prism", "prism%d" % n, prism(n, 0.8)))
        out.append(("antiprism", "antiprism%d" % n, antiprism(n, 0.9)))
    for n in range(3, 6):
        out.append(("pyramid", "pyramid%d" % n, pyramid(n, 1.3)))
        out.append(("dipyramid", "dipyramid%d" % n, dipyramid(n, 0.7)))
    return out


def primitive_directions():
    ds = []
    for x in range(-2, 3):
        for y in range(-2, 3):
            for z in range(-2, 3):
                if (x, y, z) == (0, 0, 0):
                    continue
                if math.gcd(math.gcd(abs(x), abs(y)), abs(z)) != 1:
                    continue
                ds.append((x, y, z))
    # fixed pseudo-shuffled order so that prefixes are spread over the sphere
    ds.sort(key=lambda d: ((d[0] * 7 + d[1] * 13 + d[2] * 29) % 31, d))
    # make the first four affinely independent so that every prefix of length >= 4 is a solid
    first = [(1, 0, 0), (0, 1, 0), (0, 0, 1), (-1, -1, -1)]
    ds = first + [d for d in ds if d not in first]
    return ds


def ellipsoid_points(a, b, c, k):
    pts = []
    for d in primitive_directions()[:k]:
        s = 1.0 / math.sqrt((d[0] / a) ** 2 + (d[1] / b) ** 2 + (d[2] / c) ** 2)
        pts.append((d[0] * s, d[1] * s, d[2] * s))
    return pts
