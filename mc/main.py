"""./run check <ID> [--tier quick|thorough]   |   ./run replay <file>   |   ./run setup   |   ./run all [--tier]"""
import os
import sys

from . import common


def main(argv):
    if not argv:
        print(__doc__)
        return 2
    cmd = argv[0]
    tier = os.environ.get("VERIF_TIER", "quick")
    if "--tier" in argv:
        tier = argv[argv.index("--tier") + 1]
    if cmd == "check":
        pid = argv[1].upper()
        return common.run_check("mc.checks." + pid.lower(), tier)
    if cmd == "replay":
        return common.run_replay(argv[1])
    if cmd == "setup":
        from . import alphabet

        alphabet.build_cache(verbose=True)
        return 0
    if cmd == "all":
        rc = 0
        for i in range(1, 21):
            pid = "c%02d" % i
            if os.path.exists(os.path.join(os.path.dirname(__file__), "checks", pid + ".py")):
                rc |= common.run_check("mc.checks." + pid, tier)
        return rc
    print(__doc__)
    return 2


if __name__ == "__main__":
    sys.exit(main(sys.argv[1:]))
