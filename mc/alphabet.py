"""Finite input alphabets, all enumerated completely (DESIGN.md 1.2).

Everything here is independent of /repo (pure combinatorics on small lattices) and
is cached under /verif/.cache by `./run setup`; a missing cache is rebuilt lazily.
"""
import itertools
import json
import math
import os

from . import exact as X

CACHE = os.path.join(os.path.dirname(os.path.dirname(os.path.abspath(__file__))), ".cache")

# ---------------------------------------------------------------------------
# lattice symmetries


def signed_perms():
    mats = []
    for perm in itertools.permutations(range(3)):
        for signs in itertools.product((1, -1), repeat=3):
            M = [[0] * 3 for _ in range(3)]
            for r in range(3):
                M[r][perm[r]] = signs[r]
            mats.append(tuple(tuple(r) for r in M))
    return mats


def det_int(M):
    return X.det3(M[0], M[1], M[2])


SYM48 = signed_perms()
ROT24 = [M for M in SYM48 if det_int(M) == 1]


def _apply_int(M, p):
    return tuple(sum(M[r][c] * p[c] for c in range(3)) for r in range(3))


LAT3 = [(x, y, z) for x in range(3) for y in range(3) for z in range(3)]
_LAT3_INDEX = {p: i for i, p in enumerate(LAT3)}


def _perm_tables():
    tabs = []
    for M in SYM48:
        t = []
        for p in LAT3:
            q = _apply_int(M, (p[0] - 1, p[1] - 1, p[2] - 1))
            t.append(_LAT3_INDEX[(q[0] + 1, q[1] + 1, q[2] + 1)])
        tabs.append(tuple(t))
    return tabs


_PERMS = _perm_tables()


def _canon(S):
    return min(tuple(sorted(t[i] for i in S)) for t in _PERMS)


def _s3_shard(args):
    k, first = args
    out = []
    for rest in itertools.combinations(range(first + 1, 27), k - 1):
        S = (first,) + rest
        if _canon(S) != S:
            continue
        P = [LAT3[i] for i in S]
        if X.in_convex_position(P):
            out.append(list(S))
    return out


def _gen_s3(k):
    import multiprocessing as mp

    with mp.get_context("fork").Pool(min(16, os.cpu_count() or 1)) as pool:
        parts = pool.map(_s3_shard, [(k, f) for f in range(27 - k + 1)])
    return sorted(s for p in parts for s in p)


def _cached(name, gen):
    os.makedirs(CACHE, exist_ok=True)
    p = os.path.join(CACHE, name + ".json")
    if os.path.exists(p):
        with open(p) as f:
            return json.load(f)
    data = gen()
    tmp = p + ".tmp%d" % os.getpid()
    with open(tmp, "w") as f:
        json.dump(data, f)
    os.replace(tmp, p)
    return data


def s3(k):
    """Orbit representatives (under the 48 lattice symmetries) of k-subsets of
    {0,1,2}^3 in convex position (not coplanar).  Returns lists of lattice points."""
    idx = _cached("s3_%d" % k, lambda: _gen_s3(k))
    return [[LAT3[i] for i in S] for S in idx]


def s3_upto(kmax, kmin=4):
    out = []
    for k in range(kmin, kmax + 1):
        out.extend(s3(k))
    return out


# ---------------------------------------------------------------------------
# voxel solids


def _vox_mesh(cells):
    """Boundary of a union of unit cells: (vertices as lattice points, quads oriented
    outward) or None if the boundary is not a 2-manifold."""
    cells = set(cells)
    quads = []
    for c in sorted(cells):
        for d in range(3):
            u, v = (d + 1) % 3, (d + 2) % 3
            for sgn in (1, -1):
                nb = list(c)
                nb[d] += sgn
                if tuple(nb) in cells:
                    continue
                base = list(c)
                if sgn == 1:
                    base[d] += 1

                def pt(du, dv):
                    q = list(base)
                    q[u] += du
                    q[v] += dv
                    return tuple(q)

                quad = [pt(0, 0), pt(1, 0), pt(1, 1), pt(0, 1)]
                if sgn == -1:
                    quad = quad[::-1]
                quads.append(quad)
    # manifold test: each undirected edge in exactly two quads ...
    edge_cnt = {}
    for q in quads:
        for i in range(4):
            a, b = q[i], q[(i + 1) % 4]
            key = (min(a, b), max(a, b))
            edge_cnt[key] = edge_cnt.get(key, 0) + 1
    if any(n != 2 for n in edge_cnt.values()):
        return None
    # ... and the quads around each vertex form a single cycle (no vertex pinch)
    inc = {}
    for qi, q in enumerate(quads):
        for p in q:
            inc.setdefault(p, []).append(qi)
    for p, qs in inc.items():
        # adjacency among incident quads via shared edges containing p
        adj = {qi: set() for qi in qs}
        for a, b in itertools.combinations(qs, 2):
            sa, sb = set(quads[a]), set(quads[b])
            sh = sa & sb
            if p in sh and len(sh) >= 2:
                # they share an edge through p iff they share p and a neighbour of p in both
                na = {quads[a][(quads[a].index(p) + 1) % 4], quads[a][(quads[a].index(p) - 1) % 4]}
                nb_ = {quads[b][(quads[b].index(p) + 1) % 4], quads[b][(quads[b].index(p) - 1) % 4]}
                if na & nb_:
                    adj[a].add(b)
                    adj[b].add(a)
        seen = {qs[0]}
        stack = [qs[0]]
        while stack:
            x = stack.pop()
            for y in adj[x]:
                if y not in seen:
                    seen.add(y)
                    stack.append(y)
        if len(seen) != len(qs):
            return None
    verts = sorted(inc)
    vi = {p: i for i, p in enumerate(verts)}
    faces = [[vi[p] for p in q] for q in quads]
    return verts, faces


def _face_connected(cells):
    cells = set(cells)
    start = next(iter(cells))
    seen = {start}
    stack = [start]
    while stack:
        c = stack.pop()
        for d in range(3):
            for s in (1, -1):
                n = list(c)
                n[d] += s
                n = tuple(n)
                if n in cells and n not in seen:
                    seen.add(n)
                    stack.append(n)
    return len(seen) == len(cells)


def _gen_vox(box):
    allc = [(x, y, z) for x in range(box[0]) for y in range(box[1]) for z in range(box[2])]
    out = []
    seen = set()
    for r in range(1, len(allc) + 1):
        for sub in itertools.combinations(allc, r):
            mn = [min(c[m] for c in sub) for m in range(3)]
            norm = tuple(sorted((c[0] - mn[0], c[1] - mn[1], c[2] - mn[2]) for c in sub))
            if norm in seen:
                continue
            seen.add(norm)
            if not _face_connected(norm):
                continue
            m = _vox_mesh(norm)
            if m is None:
                continue
            out.append([list(map(list, norm)), [list(p) for p in m[0]], m[1]])
    return out


def vox(box):
    """All face-connected cell subsets of the box (up to translation) whose boundary is
    a 2-manifold.  Items: dict(cells, verts, faces)."""
    data = _cached("vox_%d%d%d" % tuple(box), lambda: _gen_vox(box))
    return [{"cells": [tuple(c) for c in d[0]], "verts": [tuple(p) for p in d[1]], "faces": d[2]} for d in data]


def vox_is_star_shaped_hint(cells):
    """True when the solid is a box (convex)."""
    cs = set(cells)
    mx = [max(c[m] for c in cs) + 1 for m in range(3)]
    return len(cs) == mx[0] * mx[1] * mx[2]


# ---------------------------------------------------------------------------
# lattice polygons


def _gen_p2(n, g):
    pts = [(x, y) for x in range(g) for y in range(g)]
    simple, crossing, degenerate = [], 0, 0
    cross_list = []
    for sub in itertools.combinations(range(len(pts)), n):
        first = sub[0]
        for perm in itertools.permutations(sub[1:]):
            cyc = [pts[first]] + [pts[i] for i in perm]
            k = X.classify_cycle(cyc)
            if k == "simple":
                simple.append([list(p) for p in cyc])
            elif k == "crossing":
                crossing += 1
                if len(cross_list) < 4000:
                    cross_list.append([list(p) for p in cyc])
            else:
                degenerate += 1
    return {"simple": simple, "crossing_count": crossing, "degenerate_count": degenerate, "crossing": cross_list}


def p2(n, g=4):
    """Directed simple lattice cycles with n vertices on a g x g grid whose first vertex
    is the lexicographically smallest (both orientations occur)."""
    d = _cached("p2_%d_%d" % (n, g), lambda: _gen_p2(n, g))
    return [[tuple(p) for p in c] for c in d["simple"]]


def p2_crossing(n, g=4):
    d = _cached("p2_%d_%d" % (n, g), lambda: _gen_p2(n, g))
    return [[tuple(p) for p in c] for c in d["crossing"]]


def p2_counts(n, g=4):
    d = _cached("p2_%d_%d" % (n, g), lambda: _gen_p2(n, g))
    return len(d["simple"]), d["crossing_count"], d["degenerate_count"]


def rotations_of_cycle(c):
    return [c[i:] + c[:i] for i in range(len(c))]


def poly_canonical_shape(c):
    """Canonical form of a lattice polygon under translation (used to thin P2)."""
    mx = min(p[0] for p in c)
    my = min(p[1] for p in c)
    return tuple((p[0] - mx, p[1] - my) for p in c)


def p2_thin(n, g=4):
    """P2 modulo translation (keeps orientation and the start vertex)."""
    seen = set()
    out = []
    for c in p2(n, g):
        k = poly_canonical_shape(c)
        if k not in seen:
            seen.add(k)
            out.append(list(k))
    return out


def cp2(nmax=5, g=4):
    """Convex lattice polygons, counter-clockwise, translation-reduced."""
    out = []
    for n in range(3, nmax + 1):
        for c in p2_thin(n, g):
            if X.shoelace2(c) > 0 and X.is_convex_ccw(c):
                out.append(c)
    return out


def regular_ngon(n, phase=0.0, r=1.0):
    return [(r * math.cos(phase + 2 * math.pi * i / n), r * math.sin(phase + 2 * math.pi * i / n)) for i in range(n)]


# ---------------------------------------------------------------------------
# curved shapes

AXES = [1e-3, 0.3, 1.0, 1.0 + 2.0**-52, 1.0 + 1e-12, 1.0 + 1e-6, 2.0, 7.5, 1e3]


def curv_centres(diam):
    u = (3.0, -2.0, 5.0)
    nu = math.sqrt(38.0)
    # (entries 4 and 5: on a coordinate plane / on an axis - some but not all components are zero)
    return [(0.0, 0.0, 0.0), (1.0, 2.0, 3.0), (-7.0, 0.5, 11.0), tuple(10.0 * diam * x / nu for x in u), (2.0, -1.5, 0.0), (0.0, 0.0, 2.5)]


# ---------------------------------------------------------------------------
# placements G


def quat_to_matrix(q):
    w, x, y, z = q
    n = w * w + x * x + y * y + z * z
    return [
        [(w * w + x * x - y * y - z * z) / n, 2 * (x * y - w * z) / n, 2 * (x * z + w * y) / n],
        [2 * (x * y + w * z) / n, (w * w - x * x + y * y - z * z) / n, 2 * (y * z - w * x) / n],
        [2 * (x * z - w * y) / n, 2 * (y * z + w * x) / n, (w * w - x * x - y * y + z * z) / n],
    ]


GENERIC_ROTS = {
    "q1234": quat_to_matrix((1, 2, 3, 4)),
    "q2-153": quat_to_matrix((2, -1, 5, 3)),
    "q1110": quat_to_matrix((1, 1, 1, 0)),
}
IDENT = [[1.0, 0.0, 0.0], [0.0, 1.0, 0.0], [0.0, 0.0, 1.0]]
SCALES = {"s1": 1.0, "s2^-10": 2.0**-10, "s2^10": 2.0**10, "s1e-3": 1e-3, "s1e3": 1e3, "s1e-6": 1e-6, "s1e6": 1e6, "s1e-9": 1e-9}
EXTREME_SCALES = ("s1e-6", "s1e6", "s1e-9")  # outside the 1e-3..1e3 range that C09 pins; used by targeted cases only
SHIFTS = {"t0": (0.0, 0.0, 0.0), "t3-25": (3.0, -2.0, 5.0), "t10u": tuple(10.0 * c / math.sqrt(38.0) for c in (3.0, -2.0, 5.0))}
# "any offset": ~2e7 diameters from the origin (only used where the answer stays well conditioned: containment)
SHIFTS["tfar"] = (2.0**24, -(2.0**24), 2.0**23)


def placement(rot="I", scale="s1", shift="t0"):
    """A placement is a JSON-able dict; shift is in units of the shape diameter."""
    return {"rot": rot, "scale": scale, "shift": shift}


def rot_matrix(name):
    if name == "I":
        return IDENT
    if name.startswith("L"):
        return [[float(x) for x in r] for r in ROT24[int(name[1:])]]
    if name.startswith("M"):  # improper lattice symmetry (mirror) - only for negative tests
        return [[float(x) for x in r] for r in SYM48[int(name[1:])]]
    return GENERIC_ROTS[name]


def apply_placement(pl, pts, diam=None):
    """x -> s * R x + t*diam, computed in floats exactly as a user would."""
    import numpy as np

    P = np.asarray(pts, dtype=float)
    R = np.array(rot_matrix(pl["rot"]))
    s = SCALES[pl["scale"]]
    if diam is None:
        diam = float(np.max(np.linalg.norm(P[:, None, :] - P[None, :, :], axis=-1))) if len(P) > 1 else 1.0
    t = np.array(SHIFTS[pl["shift"]]) * diam * s
    if P.shape[1] == 2:
        P = np.hstack([P, np.zeros((len(P), 1))])
    return (P @ R.T) * s + t


def placements_quick():
    """8 placements: identity, two lattice rotations, the three generic rotations, with
    shifts and scales spread over them."""
    return [
        placement(),
        placement("L5", "s1", "t3-25"),
        placement("L17", "s2^10", "t0"),
        placement("q1234", "s1", "t10u"),
        placement("q2-153", "s1e-3", "t3-25"),
        placement("q1110", "s1e3", "t0"),
        placement("I", "s2^-10", "t10u"),
        placement("q1234", "s1e3", "t3-25"),
    ]


def placements_tiny():
    """absolute tolerances (np.isclose against 0, 1e-8 ...) only show at extreme absolute sizes"""
    return [placement("q1234", "s1e-6", "t3-25"), placement("I", "s1e-6", "t0"), placement("q2-153", "s1e6", "t10u"), placement("L7", "s1e-9", "t3-25")]


def placements_all():
    out = []
    rots = ["I"] + ["L%d" % i for i in range(1, 24)] + list(GENERIC_ROTS)
    for r in rots:
        for s in [k for k in SCALES if k not in EXTREME_SCALES]:
            for t in [x for x in SHIFTS if x != "tfar"]:
                out.append(placement(r, s, t))
    return out


def placements_medium():
    out = []
    rots = ["I", "L5", "L10", "L17", "L22"] + list(GENERIC_ROTS)
    for i, r in enumerate(rots):
        for j, s in enumerate([k for k in SCALES if k not in EXTREME_SCALES]):
            for k, t in enumerate([x for x in SHIFTS if x != "tfar"]):
                if (i + j + k) % 3 == 0 or r == "I":
                    out.append(placement(r, s, t))
    return out


# ---------------------------------------------------------------------------
# permutations of vertex order


def order_closure(k, depth=3):
    """Vertex orders reachable from identity by {swap(0,1), rotate, reverse} to BFS depth."""
    start = tuple(range(k))
    seen = {start}
    frontier = [start]
    for _ in range(depth):
        new = []
        for o in frontier:
            for nx in ((o[1], o[0]) + o[2:], o[1:] + o[:1], o[::-1]):
                if nx not in seen:
                    seen.add(nx)
                    new.append(nx)
        frontier = new
    return sorted(seen)


def all_orders(k):
    if k <= 5:
        return list(itertools.permutations(range(k)))
    return order_closure(k)


# ---------------------------------------------------------------------------


def build_cache(verbose=False):
    import time

    t = time.time()
    for k in (4, 5, 6):
        n = len(s3(k))
        if verbose:
            print("S3(%d): %d orbits  t=%.1fs" % (k, n, time.time() - t))
    for box in ((2, 2, 2), (3, 3, 1), (3, 2, 2)):
        n = len(vox(box))
        if verbose:
            print("VOX%s: %d solids  t=%.1fs" % (box, n, time.time() - t))
    for n in (3, 4, 5):
        c = p2_counts(n, 4)
        if verbose:
            print("P2(%d,4): simple=%d crossing=%d degenerate=%d  t=%.1fs" % ((n,) + c + (time.time() - t,)))
