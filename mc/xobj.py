"""Cross-object interference probe, run in a fresh interpreter:

    python -m mc.xobj <class> alone|after-twin|after-same|after-all

Prints a JSON fingerprint of every observable of object Y of <class>.  With `after-*`
other objects (of the same class / of every class) are built, queried and mutated first.
If shapes share hidden mutable state (a class-level cache, a module-level scratch
buffer), Y's answers depend on that history; C16 compares the three outputs.
"""
import copy
import json
import sys
import warnings

import numpy as np


def fp(v):
    if isinstance(v, dict):
        return {repr(k) if not isinstance(k, str) else k: fp(x) for k, x in sorted(v.items(), key=lambda kv: repr(kv[0]))}
    if isinstance(v, (list, tuple)):
        return [fp(x) for x in v]
    if isinstance(v, np.ndarray):
        if v.dtype.kind == "f":
            return [float(x).hex() for x in v.reshape(-1)] + [list(v.shape)]
        if v.dtype.kind == "c":
            return [[float(x.real).hex(), float(x.imag).hex()] for x in v.reshape(-1)]
        return v.tolist()
    if isinstance(v, (float, np.floating)):
        return float(v).hex()
    if isinstance(v, complex):
        return [float(v.real).hex(), float(v.imag).hex()]
    if isinstance(v, (int, str, bool, np.integer, np.bool_)) or v is None:
        return v if not isinstance(v, (np.integer, np.bool_)) else v.item()
    if isinstance(v, frozenset):
        return sorted(fp(x) for x in v) if all(not isinstance(x, frozenset) for x in v) else sorted(repr(sorted(map(repr, v))))
    return repr(v)


def main(argv):
    from . import common

    common.bind_repo()
    common.seed_all()
    warnings.simplefilter("ignore")
    from . import e1
    from .checks import c16

    cls, mode = argv[0], argv[1]

    def exercise(name):
        x = c16.make(name)
        for q in c16.query_alphabet(x):
            try:
                c16.run_query(x, q)
            except Exception:
                pass
        if hasattr(x, "vertices"):
            for op in e1.discover_ops(copy.deepcopy(x))[:12]:
                try:
                    e1.apply_op(x, op)
                except Exception:
                    pass
        for q in c16.query_alphabet(x)[:10]:
            try:
                c16.run_query(x, q)
            except Exception:
                pass

    def exercise_twin(name):
        """an object with the same combinatorics as Y but different geometry (keys forced to collide)"""
        x = c16.make(name)
        try:
            if hasattr(x, "vertices"):
                for op in ("set:centroid=rel", "set:volume*2", "set:area*2"):
                    try:
                        e1.apply_op(x, op)
                    except Exception:
                        pass
            else:
                x._rescale(1.37)
                x.centroid = np.asarray(x.centroid, float) + np.array([0.5, -1.0, 2.0])
        except Exception:
            pass
        for q in c16.query_alphabet(x):
            try:
                c16.run_query(x, q)
            except Exception:
                pass

    if mode == "after-twin":
        exercise_twin(c16.BASES_T[cls])
    elif mode == "after-same":
        exercise(c16.BASES_Q[cls])
    elif mode == "after-all":
        for c in c16.BASES_Q:
            exercise(c16.BASES_Q[c])
    y = c16.make(c16.BASES_T[cls])
    probes = e1.margin_filter(y, e1.probes_for(y)) if hasattr(y, "vertices") else None
    obs = e1.observe(y, probes)
    out = {k: [kind, fp(e1._plain(v)) if kind == "val" else v] for k, (kind, v) in obs.items()}
    for q in c16.query_alphabet(y):
        st, r, _ = c16.run_query(y, q)
        if isinstance(r, str) and len(r) > 2000:
            import hashlib

            r = hashlib.sha1(r.encode()).hexdigest()
        out["query:" + q[0]] = [st, fp(e1._plain(r)) if st == "val" else r]
    json.dump(out, sys.stdout, sort_keys=True, default=repr)


if __name__ == "__main__":
    main(sys.argv[1:])
