"""C03 - mutable shapes stay coherent under any history of mutations.  Engine E1."""
import copy
import warnings

import numpy as np

from .. import e1
from ..common import Report

PROPERTY = "C03"
ENGINE = "E1"
TECHNIQUE = "explicit-state breadth-first exploration of operation histories on live objects (depth-bounded, reflected operation alphabet), invariant = agreement with a freshly constructed object"
LEVEL_TEXT = "All histories up to the depth bound over an operation alphabet found by reflection (setters, mutators, core-handle operations, reads that write) are executed from 24 base shapes (chiral, lattice, tabulated, triangulated, non-convex L and U, clockwise, negative-orientation, tiny, xy-plane with -z normal); every reached state (canonical instance dictionary) is checked against a fresh object on every public observable, for proper orientation, and raising operations for atomicity."
RULE = (
    "explicit-state BFS over histories of public operations (every settable property x {0.5x, 2x, non-positive}, centre "
    "setters x {origin,(1,2,3),relative}, diagonalize_inertia, merge_faces, sort_faces, to_hoomd and every read that writes "
    "the instance dictionary - all found by reflection) from 24 base shapes (chiral, lattice, tabulated, triangulated, non-convex L and U, clockwise, negative-orientation, tiny, xy-plane with -z normal) of the six vertex-based classes; a state is the "
    "canonical form of the whole instance dictionary; on every state every public observable (by reflection, modulo face "
    "relabelling) is compared with a freshly constructed object with the same vertices/faces/normal/radius; a raising "
    "operation must leave the state bit-identical; the vertex cloud must remain a proper (det=+1) similarity image of the "
    "base.  non-trivial = state reached by a non-empty history whose canonical form differs from the base's."
)
ASSUMPTIONS = ["'long random walks' of the quantifier text are not covered (sampling is a different family); depth bound instead"]
BOUNDS = {"quick": {"depth": 2, "bases": len(e1.BASES_C03)}, "thorough": {"depth": 3, "bases": len(e1.BASES_C03), "note": "depth 4 on the 3-D convex bases"}}
CHUNK = 1
TAU = 1e-9

_OPS = {}


def ops_for(name):
    if name not in _OPS:
        _OPS[name] = e1.discover_ops(e1.make_base(name))
    return _OPS[name]


def depth_for(tier, base):
    if tier == "quick":
        return 2
    return 3


def cases(tier):
    from ..common import bind_repo

    bind_repo()
    out = []
    for b in e1.BASES_C03:
        d = depth_for(tier, b)
        out.append({"base": b, "prefix": [], "depth": 0})
        for op in ops_for(b):
            out.append({"base": b, "prefix": [op], "depth": d})
    return out


def _with_normal(v, n):
    """For planar shapes handedness = vertex cycle + normal: append the point mean + L*normal."""
    if n is None:
        return v
    v = np.asarray(v, float)
    L = float(np.linalg.norm(v.max(0) - v.min(0)))
    return np.vstack([v, v.mean(0) + L * np.asarray(n, float)])


def check_state(rep, base_name, base_v, base_n, obj, hist, case):
    """Invariant on one state (evaluated on clones)."""
    cls = type(obj).__name__
    rep.traces += 1
    hcase = {"base": base_name, "prefix": list(hist), "depth": len(hist)}
    try:
        fresh = e1.fresh_like(obj)
    except Exception as ex:
        rep.violation("coherence", cls, "state", "not-constructible", hcase, "after %s the current vertices no longer construct a %s: %r" % (hist, cls, ex))
        return
    v = e1.defining_vertices(obj)
    L = float(np.linalg.norm(v.max(0) - v.min(0)))
    D = L + float(np.linalg.norm(v.mean(0)))
    fit = e1.similarity_fit(_with_normal(base_v, base_n), _with_normal(v, getattr(obj, "normal", None)))
    if fit is not None:
        det, res, s = fit
        if res < 1e-7 and det < 0:
            rep.violation("coherence", cls, "vertices", "mirrored", hcase, "after %s the shape is the mirror image of the base (best orthogonal fit has det=%.3f, residual %.2g)" % (hist, det, res))
        else:
            rep.ok("proper-similarity")
    probes = e1.margin_filter(fresh, e1.probes_for(obj))
    got = e1.observe(copy.deepcopy(obj), probes)
    want = e1.observe(fresh, probes)
    bad = e1.compare_observations(got, want, L, D)
    rep.transitions += len(want)
    if not bad:
        rep.ok("coherent", len(want))
    for name, detail in bad:
        last = hist[-1] if hist else "-"
        rep.violation("coherence", cls, name, "differs-from-fresh", hcase, "after %s: %s differs from a freshly constructed %s: %s" % (list(hist), name, cls, detail))


def _opclass(hist):
    """Failure mode label: the set of operation kinds in the history (values stripped)."""
    ks = []
    for op in hist:
        k = op.split("*")[0].split("=")[0]
        if k not in ks:
            ks.append(k)
    return "+".join(ks)


def run_case(case):
    rep = Report()
    name = case["base"]
    with warnings.catch_warnings():
        warnings.simplefilter("ignore")
        base = e1.make_base(name)
        ops = ops_for(name)
        base_v = e1.defining_vertices(base).copy()
        base_n = np.array(base.normal, float).copy() if hasattr(base, "normal") else None
        cls = type(base).__name__
        # replay the prefix on a fresh base
        obj = copy.deepcopy(base)
        for op in case["prefix"]:
            ok = _step(rep, obj, op, case["prefix"], cls, name)
            if ok is not True:
                return rep
        seen = {e1.canon(obj)}
        base_key = e1.canon(base)
        frontier = [(tuple(case["prefix"]), obj)]
        rep.states += 1
        if seen != {base_key}:
            rep.nontrivial += 1
        check_state(rep, name, base_v, base_n, obj, tuple(case["prefix"]), case)
        depth = case["depth"]
        for _ in range(len(case["prefix"]), depth):
            new = []
            for hist, o in frontier:
                for op in ops:
                    c = copy.deepcopy(o)
                    ok = _step(rep, c, op, hist + (op,), cls, name)
                    if ok is not True:
                        continue
                    k = e1.canon(c)
                    if k in seen:
                        rep.extra["revisits"] += 1
                        continue
                    seen.add(k)
                    rep.states += 1
                    if k != base_key:
                        rep.nontrivial += 1
                    h2 = hist + (op,)
                    # snapshot fidelity: the deepcopy-carried object equals a replay from the base
                    if len(seen) % 7 == 0:
                        r = copy.deepcopy(base)
                        try:
                            for x in h2:
                                e1.apply_op(r, x)
                            if e1.canon(r) != k:
                                rep.violation("harness", cls, "snapshot", "replay-differs", {"base": name, "prefix": list(h2), "depth": len(h2)}, "deepcopy snapshot and replay from base disagree for %s" % (list(h2),))
                            else:
                                rep.extra["replay_crosschecks"] += 1
                        except Exception:
                            pass
                    check_state(rep, name, base_v, base_n, c, h2, case)
                    new.append((h2, c))
            frontier = new
        if case["prefix"] == [] and case["depth"] == 0:
            rep.sample({"base": name, "ops": ops})
        elif len(rep.samples) == 0 and frontier:
            rep.sample({"base": name, "history": list(frontier[-1][0])})
    return rep


def _step(rep, obj, op, hist, cls, base_name):
    """Apply op.  True = new state; False = raised (checked atomic) or pruned."""
    if op.startswith("set:") or op.startswith("core:set:"):
        # the harness reads the current value to compute the target; do that read before the snapshot, so
        # that a memo it fills is not mistaken for an effect of a setter that raises
        try:
            tgt = obj if op.startswith("set:") else (getattr(obj, "polyhedron", None) or getattr(obj, "polygon", None))
            getattr(tgt, op.split(":")[-1].split("*")[0].split("=")[0])
        except Exception:
            pass
    tree = e1.key_tree(obj)
    before = e1.exact_state_on(obj, tree)
    rep.transitions += 1
    v0 = e1.defining_vertices(obj).copy() if op.endswith("call:to_hoomd") else None
    try:
        e1.apply_op(obj, op)
        if v0 is not None:
            # to_hoomd recentres and restores: the geometry it leaves behind is the geometry it found (wave-7 seed
            # W7_C03a: the saved centre was an alias of the live one, so the shape stayed at the origin - coherent
            # with a fresh object built from the moved vertices, hence invisible to the fresh-twin invariant)
            v1 = e1.defining_vertices(obj)
            D = float(np.linalg.norm(v0.max(0) - v0.min(0))) + float(np.linalg.norm(v0.mean(0)))
            if v1.shape != v0.shape or float(np.max(np.abs(v1 - v0))) > 1e-9 * D:
                rep.violation("coherence", cls, "to_hoomd", "geometry-moved", {"base": base_name, "prefix": list(hist), "depth": len(hist)}, "after %s the vertices differ from those before to_hoomd by %.3g" % (list(hist), float(np.max(np.abs(v1 - v0))) if v1.shape == v0.shape else float("nan")))
            else:
                rep.ok("to_hoomd-restores-geometry")
    except Exception as ex:
        # fields that existed before must be bit-identical; private memo fields may have appeared
        after = e1.exact_state_on(obj, tree)
        if after != before:
            rep.violation("atomicity", cls, op.split("*")[0].split("=")[0], "raise-not-atomic", {"base": base_name, "prefix": list(hist), "depth": len(hist)}, "%s raised %s but changed the object" % (op, type(ex).__name__))
        else:
            rep.ok("raised-and-unchanged:" + type(ex).__name__)
        return False
    if e1.is_nonpositive_op(op):
        # accepted non-positive target: C08's domain; do not explore garbage states here
        rep.skip("nonpositive-target-accepted(C08)")
        return False
    return True
