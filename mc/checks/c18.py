"""C18 - every tabulated family entry is the solid its name says.  Exhaustive enumeration
of the finite configuration space + E1-style BFS over lookup sequences of the DOI loader."""
import collections
import itertools
import json
import os

import numpy as np

from ..common import REPO, Report
from ..refs import ConvexRef

PROPERTY = "C18"
ENGINE = "E2"
TECHNIQUE = "exhaustive enumeration of the finite configuration space (290 entries) plus breadth-first exploration of loader / iteration / cross-family lookup histories"
RULE = (
    "cases = every entry of every tabulated family (5+13+13+92+16+6) and of the DOI 10.1126/science.1220869 repository (145), "
    "enumerated completely: builds a ConvexPolyhedron through get_shape; iteration yields the names once, in the order of .names, "
    "with the same shape as get_shape; unit volume (certified exact hull); Platonic/Archimedean/Catalan have the textbook (V,E,F) "
    "(table written from the literature) both in the implementation's face structure and in an independent coplanar merge of the "
    "certified hull; Platonic/Archimedean/Johnson (and prism/antiprism, (di)pyramid) have equal edges and regular faces; Catalan "
    "solids have an insphere (all face planes equidistant from one point); repository entries with a `source` coincide with the "
    "named family entry (sorted pair-distance multiset after volume normalisation); unknown names/DOIs raise KeyError.  Loader: all "
    "lookup sequences over {3 known DOIs, 1 unknown} to depth 3 - same list object on repeat, unknown keys not cached; histories on "
    "the shared family objects: interleaved / nested / abandoned iterations, and for every ordered pair of families get_shape(name) in "
    "the first followed by the same name in the second (KeyError unless it tabulates the name itself), a user-built family reusing a "
    "stock name.  "
    "Also: textbook face types (Platonic, Archimedean) and vertex figures (Catalan, by duality); get_shape(name) three times while the caller modifies the returned shape.  "
    "non-trivial = every entry (each is a distinct configuration)."
)
ASSUMPTIONS = ["the (V,E,F) table of the 31 Platonic/Archimedean/Catalan solids, the face-type table of the 18 Platonic/Archimedean solids and the Catalan-Archimedean duality table are taken from the literature and written into the check"]
BOUNDS = {"quick": {"entries": "all 290", "loader": "depth 3 (85 histories)"}, "thorough": {"entries": "all 290", "loader": "depth 4"}}
CHUNK = 4

VEF = {
    "Tetrahedron": (4, 6, 4), "Cube": (8, 12, 6), "Octahedron": (6, 12, 8), "Dodecahedron": (20, 30, 12), "Icosahedron": (12, 30, 20),
    "Cuboctahedron": (12, 24, 14), "Icosidodecahedron": (30, 60, 32), "Truncated Tetrahedron": (12, 18, 8), "Truncated Octahedron": (24, 36, 14),
    "Truncated Cube": (24, 36, 14), "Truncated Icosahedron": (60, 90, 32), "Truncated Dodecahedron": (60, 90, 32), "Rhombicuboctahedron": (24, 48, 26),
    "Rhombicosidodecahedron": (60, 120, 62), "Truncated Cuboctahedron": (48, 72, 26), "Truncated Icosidodecahedron": (120, 180, 62),
    "Snub Cuboctahedron": (24, 60, 38), "Snub Icosidodecahedron": (60, 150, 92),
    "Rhombic Dodecahedron": (14, 24, 12), "Rhombic Triacontahedron": (32, 60, 30), "Triakis Tetrahedron": (8, 18, 12), "Tetrakis Hexahedron": (14, 36, 24),
    "Triakis Octahedron": (14, 36, 24), "Pentakis Dodecahedron": (32, 90, 60), "Triakis Icosahedron": (32, 90, 60), "Deltoidal Icositetrahedron": (26, 48, 24),
    "Deltoidal Hexecontahedron": (62, 120, 60), "Disdyakis Dodecahedron": (26, 72, 48), "Disdyakis Triacontahedron": (62, 180, 120),
    "Pentagonal Icositetrahedron": (38, 60, 24), "Pentagonal Hexecontahedron": (92, 150, 60),
}
# face-size histogram {corners: faces} of the Platonic and Archimedean solids (literature); a Catalan solid is the dual
# of an Archimedean one: its faces all have as many corners as the Archimedean solid's vertices have edges, and its
# vertex-degree histogram is the Archimedean face-size histogram
FACES = {
    "Tetrahedron": {3: 4}, "Cube": {4: 6}, "Octahedron": {3: 8}, "Dodecahedron": {5: 12}, "Icosahedron": {3: 20},
    "Cuboctahedron": {3: 8, 4: 6}, "Icosidodecahedron": {3: 20, 5: 12}, "Truncated Tetrahedron": {3: 4, 6: 4}, "Truncated Octahedron": {4: 6, 6: 8},
    "Truncated Cube": {3: 8, 8: 6}, "Truncated Icosahedron": {5: 12, 6: 20}, "Truncated Dodecahedron": {3: 20, 10: 12}, "Rhombicuboctahedron": {3: 8, 4: 18},
    "Rhombicosidodecahedron": {3: 20, 4: 30, 5: 12}, "Truncated Cuboctahedron": {4: 12, 6: 8, 8: 6}, "Truncated Icosidodecahedron": {4: 30, 6: 20, 10: 12},
    "Snub Cuboctahedron": {3: 32, 4: 6}, "Snub Icosidodecahedron": {3: 80, 5: 12},
}
DUAL_OF = {
    "Rhombic Dodecahedron": "Cuboctahedron", "Rhombic Triacontahedron": "Icosidodecahedron", "Triakis Tetrahedron": "Truncated Tetrahedron",
    "Tetrakis Hexahedron": "Truncated Octahedron", "Triakis Octahedron": "Truncated Cube", "Pentakis Dodecahedron": "Truncated Icosahedron",
    "Triakis Icosahedron": "Truncated Dodecahedron", "Deltoidal Icositetrahedron": "Rhombicuboctahedron", "Deltoidal Hexecontahedron": "Rhombicosidodecahedron",
    "Disdyakis Dodecahedron": "Truncated Cuboctahedron", "Disdyakis Triacontahedron": "Truncated Icosidodecahedron",
    "Pentagonal Icositetrahedron": "Snub Cuboctahedron", "Pentagonal Hexecontahedron": "Snub Icosidodecahedron",
}
FAMILIES = {"PlatonicFamily": ("platonic", 5), "ArchimedeanFamily": ("archimedean", 13), "CatalanFamily": ("catalan", 13), "JohnsonFamily": ("johnson", 92), "PrismAntiprismFamily": ("prism_antiprism", 16), "PyramidDipyramidFamily": ("pyramid_dipyramid", 6)}
DOIS = ["10.1126/science.1220869", "10.1103/PhysRevX.4.011024", "10.1021/nn204012y", "10.0000/unknown"]
DATA = os.path.join(REPO, "coxeter", "families", "data")


def _json(fam):
    with open(os.path.join(DATA, fam + ".json")) as f:
        return json.load(f)


def cases(tier):
    out = []
    for cname, (fn, n) in FAMILIES.items():
        out.append({"t": "family", "family": cname})
        try:
            names = list(_json(fn))
        except Exception:
            names = []
        for nm in names:
            out.append({"t": "entry", "family": cname, "name": nm})
    out.append({"t": "family", "family": "science"})
    try:
        names = list(_json("science1220869"))
    except Exception:
        names = []
    for nm in names:
        out.append({"t": "entry", "family": "science", "name": nm})
    fams = list(FAMILIES) + ["science"]
    for cname in fams:
        out.append({"t": "iter-history", "family": cname})
    for a in fams:
        for b in fams:
            if a != b:
                out.append({"t": "cross-family", "first": a, "then": b})
    out.append({"t": "user-family"})
    # get_shape(name) again after the caller resized / moved the shape it was given (first, middle, last name of each family)
    for cname in fams:
        out.append({"t": "repeat", "family": cname})
    depth = 3 if tier == "quick" else 4
    for d in range(1, depth + 1):
        for seq in itertools.product(range(4), repeat=d):
            out.append({"t": "loader", "seq": list(seq)})
    return out


def get_family(cname):
    import coxeter.families as FAM

    if cname == "science":
        return FAM.DOI_SHAPE_REPOSITORIES[DOIS[0]][0]
    return getattr(FAM, cname)


def merged_face_count(ref, tol=1e-9):
    """Number of distinct supporting planes among the certified hull triangles."""
    F = ref.F
    planes = []
    for t in ref.faces:
        a, b, c = F[t[0]], F[t[1]], F[t[2]]
        n = np.cross(b - a, c - a)
        nn = np.linalg.norm(n)
        if nn < 1e-14 * ref.L**2:
            continue
        n = n / nn
        d = float(n @ a)
        for p in planes:
            if np.max(np.abs(p[0] - n)) < 1e-7 and abs(p[1] - d) < tol * ref.L * 100:
                p[2].update(t)
                break
        else:
            planes.append([n, d, set(t)])
    return planes


def pair_distances(V):
    d = np.linalg.norm(V[:, None] - V[None], axis=-1)
    return np.sort(d[np.triu_indices(len(V), 1)])


def run_case(case):
    import warnings

    import coxeter.families as FAM
    from coxeter.shapes import ConvexPolyhedron

    rep = Report()
    t = case["t"]
    rep.states += 1
    rep.traces += 1
    rep.nontrivial += 1
    with warnings.catch_warnings():
        warnings.simplefilter("ignore")
        if t == "family":
            cname = case["family"]
            try:
                fam = get_family(cname)
                names = list(fam.names)
            except Exception as ex:
                rep.violation("tabulated", cname, "names", "raised:" + type(ex).__name__, case, repr(ex))
                return rep
            want_n = FAMILIES[cname][1] if cname != "science" else 145
            rep.transitions += 4
            if len(names) != want_n or len(set(names)) != len(names):
                rep.violation("tabulated", cname, "names", "entry-count", case, "%d names (%d distinct), expected %d" % (len(names), len(set(names)), want_n))
            else:
                rep.ok("entry-count")
            try:
                it = list(iter(fam))
            except Exception as ex:
                rep.violation("tabulated", cname, "__iter__", "raised:" + type(ex).__name__, case, repr(ex))
                return rep
            if [k for k, _ in it] != names:
                rep.violation("tabulated", cname, "__iter__", "order", case, "iteration order differs from .names")
            else:
                bad = None
                for k, shp in it:
                    g = fam.get_shape(k)
                    if not isinstance(shp, ConvexPolyhedron) or not np.array_equal(np.asarray(shp.vertices), np.asarray(g.vertices)):
                        bad = k
                        break
                if bad is not None:
                    rep.violation("tabulated", cname, "__iter__", "shape-differs-from-get_shape", case, "iteration yields a different shape than get_shape(%r)" % bad)
                else:
                    rep.ok("iteration=get_shape")
            for unknown in ("No Such Solid", "", "cube"):
                try:
                    fam.get_shape(unknown)
                    rep.violation("tabulated", cname, "get_shape", "unknown-name-accepted", case, "get_shape(%r) did not raise" % unknown)
                except KeyError:
                    rep.ok("unknown-name-KeyError")
                except Exception as ex:
                    rep.violation("tabulated", cname, "get_shape", "wrong-exception:" + type(ex).__name__, case, "get_shape(%r) raised %r instead of KeyError" % (unknown, ex))
            return rep
        if t == "repeat":
            from .c17 import repeat_after_mutation

            fam = get_family(case["family"])
            names = list(fam.names)
            for nm in (names[0], names[len(names) // 2], names[-1]):
                rep.states += 1
                repeat_after_mutation(rep, case["family"], case, lambda nm=nm: fam.get_shape(nm))
            return rep
        if t == "iter-history":
            # histories of iteration operations on the one shared family object: two iterators advanced
            # alternately, a nested loop, an abandoned partial iteration followed by a full one
            cname = case["family"]
            fam = get_family(cname)
            names = list(fam.names)
            rep.transitions += 4
            it1, it2 = iter(fam), iter(fam)
            got1, got2 = [], []
            try:
                for _ in range(len(names)):
                    got1.append(next(it1)[0])
                    got2.append(next(it2)[0])
                ok = got1 == names and got2 == names
            except StopIteration:
                ok = False
            if not ok:
                rep.violation("tabulated", cname, "__iter__", "interleaved-iterators", case, "two iterators over the same family advanced alternately yield %s... and %s... instead of the names in order" % (got1[:4], got2[:4]))
            else:
                rep.ok("interleaved-iterators")
            outer = 0
            inner = 0
            for k1, _ in fam:
                outer += 1
                if outer <= 3:
                    for k2, _ in fam:
                        inner += 1
            if outer != len(names) or inner != 3 * len(names):
                rep.violation("tabulated", cname, "__iter__", "nested-iteration", case, "nested loops over the family: outer loop ran %d times (expected %d), inner %d (expected %d)" % (outer, len(names), inner, 3 * len(names)))
            else:
                rep.ok("nested-iteration")
            itp = iter(fam)
            next(itp)
            next(itp)
            full = [k for k, _ in fam]
            if full != names:
                rep.violation("tabulated", cname, "__iter__", "after-partial-iteration", case, "a full iteration after an abandoned partial one yields %d names starting %s" % (len(full), full[:3]))
            else:
                rep.ok("after-partial-iteration")
            if [k for k, _ in fam] != names:
                rep.violation("tabulated", cname, "__iter__", "second-iteration", case, "a second full iteration differs from the first")
            else:
                rep.ok("second-iteration")
            return rep
        if t == "cross-family":
            # lookup histories across families: building a name in one family must not make it known to another
            A_, B_ = get_family(case["first"]), get_family(case["then"])
            only_a = [n for n in A_.names if n not in set(B_.names)]
            bad = []
            for n in only_a:
                rep.transitions += 2
                A_.get_shape(n)
                try:
                    B_.get_shape(n)
                    bad.append(n)
                except KeyError:
                    pass
                except Exception as ex:
                    bad.append("%s (%s)" % (n, type(ex).__name__))
            if bad:
                rep.violation("tabulated", case["then"], "get_shape", "unknown-name-known-after-other-family", case, "after %s.get_shape(name), %s.get_shape(name) no longer raises KeyError for %d names, e.g. %s" % (case["first"], case["then"], len(bad), bad[:3]))
            else:
                rep.ok("cross-family-KeyError", max(1, len(only_a)))
            # names present in both must give each family's own data
            both = [n for n in A_.names if n in set(B_.names)]
            for n in both[:20]:
                va = np.asarray(A_.get_shape(n).vertices)
                vb = np.asarray(B_.get_shape(n).vertices)
                wa = np.asarray(A_.data[n]["vertices"], float)
                wb = np.asarray(B_.data[n]["vertices"], float)
                if va.shape != wa.shape or vb.shape != wb.shape or not np.allclose(va, wa) or not np.allclose(vb, wb):
                    rep.violation("tabulated", case["then"], "get_shape", "wrong-family-data", case, "get_shape(%r) does not return this family's own vertices" % n)
                    break
            return rep
        if t == "user-family":
            from coxeter.families import TabulatedGSDShapeFamily

            FAM.PlatonicFamily.get_shape("Cube")
            cube2 = [[x, y, z] for x in (0.0, 2.0) for y in (0.0, 2.0) for z in (0.0, 2.0)]
            uf = TabulatedGSDShapeFamily({"Cube": {"type": "ConvexPolyhedron", "vertices": cube2}, "Mine": {"type": "ConvexPolyhedron", "vertices": cube2}})
            rep.transitions += 3
            v = float(uf.get_shape("Cube").volume)
            if abs(v - 8.0) > 1e-9:
                rep.violation("tabulated", "TabulatedGSDShapeFamily", "get_shape", "user-family-gets-stock-data", case, "a user family's own 'Cube' (2x2x2) comes back with volume %r" % v)
            else:
                rep.ok("user-family-own-data")
            try:
                FAM.PlatonicFamily.get_shape("Mine")
                rep.violation("tabulated", "PlatonicFamily", "get_shape", "unknown-name-known-after-other-family", case, "PlatonicFamily knows 'Mine' after a user family built it")
            except KeyError:
                rep.ok("unknown-name-KeyError")
            if list(uf.names) != ["Cube", "Mine"] or [k for k, _ in uf] != ["Cube", "Mine"]:
                rep.violation("tabulated", "TabulatedGSDShapeFamily", "__iter__", "order", case, "user family iteration order")
            return rep
        if t == "entry":
            cname, name = case["family"], case["name"]
            rep.transitions += 1
            try:
                fam = get_family(cname)
                shp = fam.get_shape(name)
            except Exception as ex:
                rep.violation("tabulated", cname, "get_shape", "raised:" + type(ex).__name__, case, "get_shape(%r) raised %r" % (name, ex))
                return rep
            if not isinstance(shp, ConvexPolyhedron):
                rep.violation("tabulated", cname, "get_shape", "wrong-type", case, "%r is a %s" % (name, type(shp).__name__))
                return rep
            V = np.asarray(shp.vertices, float)
            try:
                ref = ConvexRef(V)
            except Exception as ex:
                rep.violation("tabulated", cname, "get_shape", "not-a-solid", case, "%r: reference hull failed: %r" % (name, ex))
                return rep
            msgs = []
            if len(ref.hull_vertices) != len(V):
                msgs.append(("not-convex-position", "only %d of %d vertices are hull vertices" % (len(ref.hull_vertices), len(V))))
            # unit volume is stated for the named families; repository entries only have to coincide
            # (after normalisation) with the family entry they cite
            if cname != "science" and (abs(ref.V - 1) > 1e-6 or abs(float(shp.volume) - 1) > 1e-6):
                msgs.append(("volume", "volume %.9f (reported %.9f) is not 1" % (ref.V, float(shp.volume))))
            rep.peak("volume", abs(ref.V - 1) / 1e-6)
            planes = merged_face_count(ref)
            textbook = name if cname != "science" else None
            fkind = cname
            if cname == "science":
                spec = _json("science1220869")[name]
                src = spec.get("source")
                if src:
                    fkind = {v[0]: k for k, v in FAMILIES.items()}.get(src.replace(".json", ""), "science")
                    textbook = spec.get("name")
                    # coincides with the named family entry
                    try:
                        other = _json(src.replace(".json", ""))[spec["name"]]["vertices"]
                        oref = ConvexRef(np.array(other, float))
                        d1 = pair_distances(V / ref.V ** (1 / 3))
                        d2 = pair_distances(np.array(other, float) / oref.V ** (1 / 3))
                        if len(d1) != len(d2) or np.max(np.abs(d1 - d2)) > 1e-6:
                            msgs.append(("differs-from-cited-family-entry", "does not coincide with %s[%r]" % (src, spec["name"])))
                    except KeyError:
                        msgs.append(("cited-entry-missing", "cites %s[%r], which does not exist" % (src, spec.get("name"))))
                else:
                    fkind = "science"
            if textbook in VEF and fkind in ("PlatonicFamily", "ArchimedeanFamily", "CatalanFamily"):
                v, e, f = VEF[textbook]
                got = (int(shp.num_vertices), int(shp.num_edges), int(shp.num_faces))
                if got != (v, e, f):
                    msgs.append(("textbook-counts", "implementation reports (V,E,F)=%s, textbook %s" % (got, (v, e, f))))
                if (len(V), len(V) + len(planes) - 2, len(planes)) != (v, e, f):
                    msgs.append(("textbook-counts-independent", "certified hull has (V,E,F)=%s, textbook %s" % ((len(V), len(V) + len(planes) - 2, len(planes)), (v, e, f))))
                # which polygons / vertex figures: separates solids with equal (V,E,F), e.g. truncated cube / truncated octahedron
                fh = collections.Counter(len(vs) for _, _, vs in planes)
                deg = collections.Counter()
                for _, _, vs in planes:
                    for x in vs:
                        deg[x] += 1
                dh = collections.Counter(deg.values())
                if textbook in FACES and dict(fh) != FACES[textbook]:
                    msgs.append(("textbook-face-types", "faces by number of corners %s, textbook %s" % (dict(sorted(fh.items())), FACES[textbook])))
                if textbook in DUAL_OF and dict(dh) != FACES[DUAL_OF[textbook]]:
                    msgs.append(("textbook-vertex-figures", "vertices by degree %s, textbook (dual of %s) %s" % (dict(sorted(dh.items())), DUAL_OF[textbook], FACES[DUAL_OF[textbook]])))
            elif fkind in ("PlatonicFamily", "ArchimedeanFamily", "CatalanFamily") and cname != "science":
                msgs.append(("unknown-name", "%r is not one of the 31 textbook names" % (name,)))
            if fkind in ("PlatonicFamily", "ArchimedeanFamily", "JohnsonFamily", "PrismAntiprismFamily", "PyramidDipyramidFamily"):
                # equal edges, regular faces (from the independent face planes)
                edges = set()
                reg = True
                for n_, d_, vs in planes:
                    idx = sorted(vs)
                    P = V[idx]
                    c = P.mean(0)
                    u = P[0] - c
                    u /= np.linalg.norm(u)
                    w = np.cross(n_, u)
                    ang = np.arctan2((P - c) @ w, (P - c) @ u)
                    order = [idx[i] for i in np.argsort(ang)]
                    r = np.linalg.norm(P - c, axis=1)
                    if np.max(np.abs(r - r[0])) > 1e-6 * ref.L:
                        reg = False
                    for i in range(len(order)):
                        a, b = order[i], order[(i + 1) % len(order)]
                        edges.add((min(a, b), max(a, b)))
                ln = np.array([np.linalg.norm(V[a] - V[b]) for a, b in sorted(edges)])
                if len(ln) and (ln.max() - ln.min()) > 1e-6 * ln.mean():
                    msgs.append(("edges-not-equal", "edge lengths range %.9f .. %.9f" % (ln.min(), ln.max())))
                if not reg:
                    msgs.append(("face-not-regular", "a face's vertices are not equidistant from its centre"))
            if fkind == "CatalanFamily":
                Nn = np.array([p[0] for p in planes])
                dd = np.array([p[1] for p in planes])
                M = np.hstack([Nn, np.ones((len(Nn), 1))])
                sol, *_ = np.linalg.lstsq(M, dd, rcond=None)
                res = np.max(np.abs(M @ sol - dd))
                if res > 1e-6 * ref.L:
                    msgs.append(("no-insphere", "face planes are not tangent to a common sphere (residual %.3g)" % res))
                try:
                    s = shp.insphere
                    if abs(float(s.radius) - sol[3]) > 1e-6 * ref.L:
                        msgs.append(("insphere-radius", "insphere radius %r, expected %r" % (float(s.radius), sol[3])))
                except Exception as ex:
                    msgs.append(("insphere-raised", "insphere raised %r" % (ex,)))
            for mode, m in msgs:
                rep.violation("tabulated", cname, "entry", mode, case, "%s[%r]: %s" % (cname, name, m))
            if not msgs:
                rep.ok("entry:" + fkind)
            rep.sample({"case": case, "V": len(V), "F": len(planes)})
            return rep
        # loader histories on a fresh mapping
        from coxeter.families import _doi_shape_collection_factory, _KeyedDefaultDict
        from coxeter.families.plane_shape_families import Family323Plus, Family423, Family523, TruncatedTetrahedronFamily
        from coxeter.families.tabulated_shape_family import TabulatedGSDShapeFamily

        m = _KeyedDefaultDict(_doi_shape_collection_factory)
        seen = {}
        for k in case["seq"]:
            rep.transitions += 1
            doi = DOIS[k]
            try:
                r = m[doi]
            except KeyError:
                if k != 3:
                    rep.violation("loader", "DOI_SHAPE_REPOSITORIES", "__getitem__", "known-doi-KeyError", case, "%s raised KeyError" % doi)
                elif doi in m:
                    rep.violation("loader", "DOI_SHAPE_REPOSITORIES", "__getitem__", "unknown-key-cached", case, "unknown DOI left an entry behind")
                else:
                    rep.ok("unknown-doi-KeyError")
                continue
            except Exception as ex:
                rep.violation("loader", "DOI_SHAPE_REPOSITORIES", "__getitem__", "raised:" + type(ex).__name__, case, "%s: %r" % (doi, ex))
                continue
            if k == 3:
                rep.violation("loader", "DOI_SHAPE_REPOSITORIES", "__getitem__", "unknown-doi-accepted", case, "unknown DOI returned %r" % (r,))
                continue
            want_types = {0: [TabulatedGSDShapeFamily], 1: [Family323Plus, Family423, Family523], 2: [TruncatedTetrahedronFamily]}[k]
            if [type(x) for x in r] != want_types:
                rep.violation("loader", "DOI_SHAPE_REPOSITORIES", "__getitem__", "wrong-families", case, "%s -> %s" % (doi, [type(x).__name__ for x in r]))
            elif k in seen and seen[k] is not r:
                rep.violation("loader", "DOI_SHAPE_REPOSITORIES", "__getitem__", "not-cached", case, "repeated lookup of %s returned a different list object" % doi)
            elif k == 0 and len(r[0].names) != 145:
                rep.violation("loader", "DOI_SHAPE_REPOSITORIES", "__getitem__", "wrong-entry-count", case, "%d entries" % len(r[0].names))
            else:
                rep.ok("lookup")
            seen[k] = r
        # identifiers that merely CONTAIN a known DOI (or differ from it by case / a prefix) are unknown as well
        if len(case["seq"]) == 1:
            for known in DOIS[:3]:
                for unk in (known + "0", known + "a", "1" + known, known[:-1], known.upper() + "x", "doi:" + known + "/2"):
                    rep.transitions += 1
                    try:
                        r = m[unk]
                        rep.violation("loader", "DOI_SHAPE_REPOSITORIES", "__getitem__", "unknown-doi-accepted", case, "unknown DOI %r returned %r" % (unk, [type(x).__name__ for x in r]))
                        m.pop(unk, None)
                    except KeyError:
                        if unk in m:
                            rep.violation("loader", "DOI_SHAPE_REPOSITORIES", "__getitem__", "unknown-key-cached", case, "unknown DOI %r left an entry behind" % unk)
                            m.pop(unk, None)
                        else:
                            rep.ok("near-miss-doi-KeyError")
                    except Exception as ex:
                        rep.violation("loader", "DOI_SHAPE_REPOSITORIES", "__getitem__", "raised:" + type(ex).__name__, case, "%s: %r" % (unk, ex))
        if set(m.keys()) != {DOIS[k] for k in seen}:
            rep.violation("loader", "DOI_SHAPE_REPOSITORIES", "keys", "key-set", case, "mapping holds %s after %s" % (sorted(m.keys()), case["seq"]))
        return rep
