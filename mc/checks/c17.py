"""C17 - parametric shape families generate exactly the documented shapes."""
import itertools
import math
from fractions import Fraction as Fr

import numpy as np

from .. import exact as X
from ..common import Report
from ..refs import ConvexRef

PROPERTY = "C17"
ENGINE = "E2"
TECHNIQUE = "exhaustive enumeration of parameter grids (plus near-degenerate neighbours) and of n=3..200 vs an independent half-space vertex enumeration"
RULE = (
    "cases = every (a, c) on the rational grid of step 1/16 of each truncation family's rectangle (323+, 423; 523 on a 17x17 grid in "
    "barycentric coordinates of its irrational rectangle) including edges and corners, every truncation k/64, out-of-domain values "
    "{-0.1, 1e-9 outside each bound, 10}; every n in 3..200 for n-gons, prisms, antiprisms and 3..5 for (di)pyramids.  Reference for "
    "the truncation families: an independent vertex enumeration of the half-space intersection with plane sets generated from the "
    "symmetry groups (not read from the code); a result is accepted iff its vertex set is within Hausdorff distance 1e-5 of the "
    "reference; success is demanded wherever the reference vertices are separated by more than 1e-4; corner solids by vertex/face "
    "counts.  Uniform families: unit volume (certified exact hull), centroid at the origin, all edges equal, vertex counts.  "
    "Also: parameters as Python / numpy integers; for every family the same request three times while the caller resizes and moves the shape it was given (the family must hand out a pristine, different object).  "
    "non-trivial = parameter point off the corners / n > 3."
)
ASSUMPTIONS = ["'dense grid plus random points' replaced by the complete 1/16 grid", "reference vertex enumeration in floats with the family's plane normals generated independently; min |det| of plane triples is a constant of each family so no vertex is lost"]
BOUNDS = {"quick": {"grid": "1/16 (289 points per family)", "n": "3..200"}, "thorough": {"grid": "1/32"}}
CHUNK = 6
S_ = (1 + math.sqrt(5)) / 2
s_ = 1 / S_


def planes_323():
    pl = []
    for sg in itertools.product((1, -1), repeat=3):
        t = 2 if sg[0] * sg[1] * sg[2] > 0 else 0  # (1,1,1)-type tetrahedral planes carry c, the opposite ones a
        pl.append((np.array(sg, float), t))
    for ax in range(3):
        for sg in (1, -1):
            v = np.zeros(3)
            v[ax] = sg
            pl.append((v, 1))
    return pl


def planes_423():
    pl = []
    for sg in itertools.product((1, -1), repeat=3):
        pl.append((np.array(sg, float), 2))
    for i, j in ((0, 1), (0, 2), (1, 2)):
        for si in (1, -1):
            for sj in (1, -1):
                v = np.zeros(3)
                v[i], v[j] = si, sj
                pl.append((v, 1))
    for ax in range(3):
        for sg in (1, -1):
            v = np.zeros(3)
            v[ax] = sg
            pl.append((v, 0))
    return pl


def cyc(v):
    return [v, (v[2], v[0], v[1]), (v[1], v[2], v[0])]


def planes_523():
    pl = []
    seen = set()

    def add(v, t):
        key = tuple(round(x, 9) for x in v)
        if key not in seen:
            seen.add(key)
            pl.append((np.array(v, float), t))

    for s1 in (1, -1):
        for s2 in (1, -1):
            for v in cyc((s1 * 1.0, 0.0, s2 * s_)):
                add(v, 0)  # 12 five-fold axes
            for v in cyc((s1 * 1.0, 0.0, s2 * S_**2)):
                add(v, 2)  # 12 of the 20 three-fold axes
    for sg in itertools.product((1, -1), repeat=3):
        add((sg[0] * S_, sg[1] * S_, sg[2] * S_), 2)  # the other 8 three-fold axes
        for v in cyc((sg[0] * S_, sg[1] * 1.0, sg[2] * s_)):
            add(v, 1)  # 24 of the 30 two-fold axes
    for ax in range(3):
        for sg in (2.0, -2.0):
            v = [0.0, 0.0, 0.0]
            v[ax] = sg
            add(tuple(v), 1)
    return pl


FAMS = {
    "Family323Plus": {"planes": planes_323, "b": 1.0, "a": (1.0, 3.0), "c": (1.0, 3.0), "corners": {(0, 0): (6, 8), (1, 0): (4, 4), (0, 1): (4, 4), (1, 1): (8, 6)}},
    "Family423": {"planes": planes_423, "b": 2.0, "a": (1.0, 2.0), "c": (2.0, 3.0), "corners": {(0, 0): (12, 14), (1, 0): (6, 8), (0, 1): (8, 6), (1, 1): (14, 12)}},
    "Family523": {"planes": planes_523, "b": 2.0, "a": (1.0, s_ * math.sqrt(5)), "c": (S_**2, 3.0), "corners": {(0, 0): (30, 32), (1, 0): (12, 20), (0, 1): (20, 12), (1, 1): (32, 30)}},
}


def enumerate_vertices(planes, dists):
    N = np.array([p[0] for p in planes])
    d = np.array([dists[p[1]] for p in planes])
    idx = np.array(list(itertools.combinations(range(len(planes)), 3)))
    M = N[idx]
    det = np.linalg.det(M)
    ok = np.abs(det) > 1e-9
    xs = np.linalg.solve(M[ok], d[idx[ok]][..., None])[..., 0]
    feas = np.all(xs @ N.T <= d[None, :] + 1e-9, axis=1)
    xs = xs[feas]
    out = []
    for x in xs:
        if not any(np.linalg.norm(x - y) < 1e-7 for y in out):
            out.append(x)
    return np.array(out)


def cases(tier):
    out = []
    g = 16 if tier == "quick" else 32
    for fam in FAMS:
        for i in range(g + 1):
            for j in range(g + 1):
                out.append({"t": "trunc", "fam": fam, "i": i, "j": j, "g": g})
                # neighbours of the grid point just off the degeneracy lines (vertices about to merge or split)
                if (i + j) % 2 == 0:
                    for da, dc in ((3e-3, 0.0), (0.0, -3e-3), (2e-3, 1e-3), (-5e-4, 5e-4)):
                        out.append({"t": "trunc", "fam": fam, "i": i, "j": j, "g": g, "da": da, "dc": dc})
        for which in ("a", "c"):
            for val in ("below", "above", "-0.1", "10", "nan"):
                out.append({"t": "trunc-out", "fam": fam, "which": which, "val": val})
    # parameters passed as Python ints / numpy integers (every integer point of each rectangle)
    for fam, pts in (("Family323Plus", [(a, c) for a in (1, 2, 3) for c in (1, 2, 3)]), ("Family423", [(1, 2), (1, 3), (2, 2), (2, 3)]), ("Family523", [(1, 3)])):
        for a, c in pts:
            for kind in ("int", "np.int64"):
                out.append({"t": "trunc", "fam": fam, "ia": a, "ic": c, "ptype": kind, "i": -1, "j": -1, "g": 1})
    for k in (0, 64):
        out.append({"t": "trtet", "k": k, "ptype": "int"})
    for k in range(0, 65):
        out.append({"t": "trtet", "k": k})
    for val in (-0.1, -1e-9, 1 + 1e-9, 10.0):
        out.append({"t": "trtet-out", "val": val})
    for n in range(3, 201):
        out.append({"t": "ngon", "n": n})
        out.append({"t": "prism", "n": n})
        out.append({"t": "antiprism", "n": n})
    for n in (3, 4, 5):
        out.append({"t": "pyramid", "n": n})
        out.append({"t": "dipyramid", "n": n})
    # the same request again after the caller resized / moved the shape it was given: families hand out fresh shapes
    for fam, args in (("Family323Plus", [2.0, 2.0]), ("Family323Plus", [1.0, 3.0]), ("Family423", [1.5, 2.5]), ("Family523", [1.0, 3.0]), ("TruncatedTetrahedronFamily", [0.5]), ("RegularNGonFamily", [5]), ("UniformPrismFamily", [5]), ("UniformAntiprismFamily", [4]), ("UniformPyramidFamily", [4]), ("UniformDipyramidFamily", [5])):
        out.append({"t": "repeat", "fam": fam, "args": args})
    return out


def repeat_after_mutation(rep, label, case, get):
    """get() three times; the shapes handed out earlier are resized and moved in between."""
    first = get()
    V0 = np.array(first.vertices, float).copy()
    rep.transitions += 2
    rep.nontrivial += 1
    for step, mutate in enumerate((lambda o: setattr(o, "volume" if hasattr(o, "volume") else "area", 3.0 * float(o.volume if hasattr(o, "volume") else o.area)), lambda o: setattr(o, "centroid", np.array([1.0, -2.0, 3.0]) if hasattr(o, "volume") else np.asarray(o.centroid, float) + np.array([1.0, -2.0, 0.0])))):
        try:
            mutate(first)
        except Exception as ex:
            rep.violation("family", label, "get_shape", "mutation-raised:" + type(ex).__name__, case, repr(ex))
            return
        again = get()
        if again is first:
            rep.violation("family", label, "get_shape", "same-object-handed-out-again", case, "%s returned the very object it returned before (which the caller has modified)" % label)
            return
        if not np.array_equal(np.asarray(again.vertices, float), V0):
            rep.violation("family", label, "get_shape", "repeat-differs-after-caller-mutation", case, "after the caller modified the shape it was given (step %d), the same request returns different vertices (max |diff| %.3g)" % (step, float(np.max(np.abs(np.asarray(again.vertices, float) - V0))) if np.shape(again.vertices) == V0.shape else float("nan")))
            return
        first = again
    rep.ok("repeat-equals-first")


def param(fam, i, j, g):
    F = FAMS[fam]
    a = F["a"][0] + (F["a"][1] - F["a"][0]) * i / g if i not in (0, g) else F["a"][0 if i == 0 else 1]
    c = F["c"][0] + (F["c"][1] - F["c"][0]) * j / g if j not in (0, g) else F["c"][0 if j == 0 else 1]
    return a, c


def hausdorff(A_, B_):
    d = np.linalg.norm(A_[:, None] - B_[None], axis=-1)
    return max(d.min(1).max(), d.min(0).max())


def run_case(case):
    import coxeter.families as FAM
    from coxeter.shapes import ConvexPolygon, ConvexPolyhedron

    rep = Report()
    t = case["t"]
    rep.states += 1
    rep.traces += 1
    if t in ("trunc", "trtet"):
        if t == "trunc":
            fam = case["fam"]
            if "ptype" in case:
                a, c = float(case["ia"]), float(case["ic"])
                conv = int if case["ptype"] == "int" else np.int64
                ai, ci = conv(case["ia"]), conv(case["ic"])
            else:
                a, c = param(fam, case["i"], case["j"], case["g"])
                ai, ci = a, c
            if "da" in case:
                a = min(max(a + case["da"], FAMS[fam]["a"][0]), FAMS[fam]["a"][1])
                c = min(max(c + case["dc"], FAMS[fam]["c"][0]), FAMS[fam]["c"][1])
            if "da" in case:
                ai, ci = a, c
            call = lambda: getattr(FAM, fam).get_shape(ai, ci)  # noqa: E731
            corner = (case["i"] // case["g"], case["j"] // case["g"]) if ("da" not in case and "ptype" not in case and case["i"] in (0, case["g"]) and case["j"] in (0, case["g"])) else None
        else:
            fam = "Family323Plus"
            tr = case["k"] / 64.0
            a, c = 1.0, 3.0 - 2.0 * tr
            tri = int(tr) if case.get("ptype") == "int" else tr
            call = lambda: FAM.TruncatedTetrahedronFamily.get_shape(tri)  # noqa: E731
            corner = None
        F = FAMS[fam]
        ref = enumerate_vertices(F["planes"](), {0: a, 1: F["b"], 2: c})
        if len(ref) < 4:
            rep.skip("degenerate-reference")
            return rep
        dd = np.linalg.norm(ref[:, None] - ref[None], axis=-1) + np.eye(len(ref)) * 1e9
        sep = float(dd.min())
        if corner is None:
            rep.nontrivial += 1
        rep.transitions += 1
        try:
            shape = call()
        except ValueError as ex:
            if sep > 1e-4:
                rep.violation("family", fam if t == "trunc" else "TruncatedTetrahedronFamily", "get_shape", "in-domain-raised", case, "(a,c)=(%r,%r): ValueError %s although the exact intersection has %d vertices separated by %.3g" % (a, c, str(ex)[:80], len(ref), sep))
            else:
                rep.ok("raised-near-degenerate")
            return rep
        except Exception as ex:
            rep.violation("family", fam, "get_shape", "raised:" + type(ex).__name__, case, "(a,c)=(%r,%r): %r" % (a, c, ex))
            return rep
        if not isinstance(shape, ConvexPolyhedron):
            rep.violation("family", fam, "get_shape", "wrong-type", case, "returned %s" % type(shape).__name__)
            return rep
        V = np.asarray(shape.vertices, float)
        h = hausdorff(V, ref)
        rep.peak("hausdorff", h / 1e-5)
        if h > 1e-5:
            rep.violation("family", fam if t == "trunc" else "TruncatedTetrahedronFamily", "get_shape", "different-shape", case, "(a,c)=(%r,%r): returned %d vertices at Hausdorff distance %.3g from the half-space intersection (%d vertices)" % (a, c, len(V), h, len(ref)))
            return rep
        if sep > 1e-4 and len(V) != len(ref):
            rep.violation("family", fam, "get_shape", "vertex-count", case, "(a,c)=(%r,%r): %d vertices, intersection has %d" % (a, c, len(V), len(ref)))
            return rep
        if corner is not None:
            want = F["corners"][corner]
            got = (int(shape.num_vertices), int(shape.num_faces))
            if got != want:
                rep.violation("family", fam, "get_shape", "corner-solid", case, "corner %s (a,c)=(%r,%r): (V,F)=%s, documented solid has %s" % (corner, a, c, got, want))
                return rep
        rep.ok("intersection")
        rep.sample({"case": case, "a": a, "c": c, "vertices": int(len(ref)), "separation": sep})
        return rep
    if t == "repeat":
        fam = case["fam"]
        try:
            repeat_after_mutation(rep, fam, case, lambda: getattr(FAM, fam).get_shape(*case["args"]))
        except Exception as ex:
            rep.violation("family", fam, "get_shape", "raised:" + type(ex).__name__, case, repr(ex))
        return rep
    if t == "trunc-out":
        fam = case["fam"]
        F = FAMS[fam]
        lo, hi = F[case["which"]]
        val = {"below": lo - 1e-9, "above": hi + 1e-9, "-0.1": -0.1, "10": 10.0, "nan": float("nan")}[case["val"]]
        a, c = (val, sum(F["c"]) / 2) if case["which"] == "a" else (sum(F["a"]) / 2, val)
        rep.transitions += 1
        rep.nontrivial += 1
        try:
            getattr(FAM, fam).get_shape(a, c)
            rep.violation("family", fam, "get_shape", "out-of-domain-accepted", case, "(a,c)=(%r,%r) is outside the documented domain but was accepted" % (a, c))
        except ValueError:
            rep.ok("out-of-domain-rejected")
        except Exception as ex:
            rep.violation("family", fam, "get_shape", "wrong-exception:" + type(ex).__name__, case, repr(ex))
        return rep
    if t == "trtet-out":
        rep.transitions += 1
        rep.nontrivial += 1
        try:
            FAM.TruncatedTetrahedronFamily.get_shape(case["val"])
            rep.violation("family", "TruncatedTetrahedronFamily", "get_shape", "out-of-domain-accepted", case, "truncation %r accepted" % case["val"])
        except ValueError:
            rep.ok("out-of-domain-rejected")
        except Exception as ex:
            rep.violation("family", "TruncatedTetrahedronFamily", "get_shape", "wrong-exception:" + type(ex).__name__, case, repr(ex))
        return rep
    n = case["n"]
    if n > 3:
        rep.nontrivial += 1
    if t == "ngon":
        rep.transitions += 1
        try:
            p = FAM.RegularNGonFamily.get_shape(n)
        except Exception as ex:
            rep.violation("family", "RegularNGonFamily", "get_shape", "raised:" + type(ex).__name__, case, repr(ex))
            return rep
        V = np.asarray(p.vertices, float)
        msgs = []
        if not isinstance(p, ConvexPolygon) or len(V) != n:
            msgs.append("type/vertex count: %s, %d" % (type(p).__name__, len(V)))
        else:
            r = np.linalg.norm(V[:, :2], axis=1)
            ang = np.mod(np.arctan2(V[:, 1], V[:, 0]), 2 * math.pi)
            area = 0.5 * abs(sum(V[i, 0] * V[(i + 1) % n, 1] - V[(i + 1) % n, 0] * V[i, 1] for i in range(n)))
            if abs(area - 1) > 1e-9:
                msgs.append("area %r != 1" % area)
            if np.max(np.abs(r - r[0])) > 1e-9 or np.max(np.abs(V[:, 2])) > 1e-12:
                msgs.append("vertices are not on a circle in z=0")
            if abs(V[0, 1]) > 1e-12 or V[0, 0] <= 0:
                msgs.append("first vertex %s is not on the +x axis" % V[0].tolist())
            want = np.array([2 * math.pi * i / n for i in range(n)])
            if np.max(np.abs(np.sort(ang) - want)) > 1e-9 and np.max(np.abs(np.sort(np.mod(ang + 1e-12, 2 * math.pi)) - want)) > 1e-9:
                msgs.append("vertex angles are not multiples of 2pi/n")
            if abs(float(p.area) - 1) > 1e-9:
                msgs.append("reported area %r" % float(p.area))
        if msgs:
            rep.violation("family", "RegularNGonFamily", "get_shape", "not-regular-unit-ngon", case, "n=%d: %s" % (n, "; ".join(msgs)))
        else:
            rep.ok("regular-unit-ngon")
        return rep
    fam = {"prism": "UniformPrismFamily", "antiprism": "UniformAntiprismFamily", "pyramid": "UniformPyramidFamily", "dipyramid": "UniformDipyramidFamily"}[t]
    nv = {"prism": 2 * n, "antiprism": 2 * n, "pyramid": n + 1, "dipyramid": n + 2}[t]
    deg = {"prism": 3, "antiprism": 4}.get(t)
    rep.transitions += 1
    try:
        p = getattr(FAM, fam).get_shape(n)
    except Exception as ex:
        rep.violation("family", fam, "get_shape", "raised:" + type(ex).__name__, case, repr(ex))
        return rep
    V = np.asarray(p.vertices, float)
    msgs = []
    if not isinstance(p, ConvexPolyhedron) or len(V) != nv:
        msgs.append("type/vertex count: %s, %d (expected %d)" % (type(p).__name__, len(V), nv))
    else:
        try:
            ref = ConvexRef(V)
            if len(ref.hull_vertices) != nv:
                msgs.append("only %d of the vertices are hull vertices" % len(ref.hull_vertices))
            if abs(ref.V - 1) > 1e-9:
                msgs.append("volume %r != 1" % ref.V)
            if np.max(np.abs(ref.centroid)) > 1e-9:
                msgs.append("centroid %s not at the origin" % (ref.centroid,))
        except Exception as ex:
            msgs.append("reference hull failed: %r" % (ex,))
        dd = np.linalg.norm(V[:, None] - V[None], axis=-1) + np.eye(len(V)) * 1e9
        smin = dd.min()
        near = (dd < smin * (1 + 1e-9)).sum(1)
        if deg is not None:
            if not np.all(near == deg):
                msgs.append("edges are not all equal: vertices have %s neighbours at the minimal distance (expected %d each)" % (sorted(set(near.tolist())), deg))
        else:
            # (di)pyramids: all hull edges equal
            edges = set()
            for f in p.faces:
                f = list(map(int, f))
                for i in range(len(f)):
                    edges.add((min(f[i], f[(i + 1) % len(f)]), max(f[i], f[(i + 1) % len(f)])))
            ln = np.array([np.linalg.norm(V[a] - V[b]) for a, b in edges])
            want_e = {"pyramid": 2 * n, "dipyramid": 3 * n}[t]
            if len(edges) != want_e or np.max(np.abs(ln - ln[0])) > 1e-9 * ln[0]:
                msgs.append("edge lengths differ (%d edges, spread %.3g)" % (len(edges), float(np.max(np.abs(ln - ln[0])))))
        if abs(float(p.volume) - 1) > 1e-9:
            msgs.append("reported volume %r" % float(p.volume))
    if msgs:
        rep.violation("family", fam, "get_shape", "not-uniform-unit-solid", case, "n=%d: %s" % (n, "; ".join(msgs)))
    else:
        rep.ok("uniform-unit-solid")
    return rep
