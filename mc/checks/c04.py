"""C04 - polygon area, signed area, perimeter, centroid, moments and inertia tensor
are exact.  Engine E2 over all simple lattice polygons x starts x normals x placements."""
import math
from fractions import Fraction as Fr

import numpy as np

from .. import alphabet as A
from .. import exact as X
from ..common import Report
from ..refs import maxerr

PROPERTY = "C04"
ENGINE = "E2"
TECHNIQUE = "bounded-exhaustive enumeration of simple lattice polygons x start vertex x normal x placement vs exact rational shoelace integrals"
LEVEL_TEXT = "Every simple polygon with <=5 vertices on a 4x4 lattice, in both orientations, from every start vertex, with default and explicit normals, is executed in 3-D and in-plane placements and decided against exact rational integrals."
RULE = (
    "cases = every simple lattice polygon of P2(n,4) modulo translation (both orientations) x every cyclic start (so every vertex, "
    "reflex ones included, becomes the vertex that determines the default normal) x normal in {default,+n,-n} x placement "
    "(3-D placement group G, or an in-plane placement for the planar-moment clause); Polygon (and ConvexPolygon on the convex "
    "subset, also with permuted vertex order) is constructed and area, signed_area, perimeter, centroid, center, "
    "planar_moments_inertia, polar_moment_inertia, inertia_tensor are compared with exact rational shoelace integrals "
    "transformed by the exact law.  non-trivial = clockwise, reflex-start, explicit-normal or non-identity-placement case."
)
ASSUMPTIONS = [
    "'random star-shaped/comb/spiral polygons with up to 40 vertices' replaced by all simple polygons with <=5 (thorough: 6 on a thinned set) vertices on a 4x4 lattice",
    "inertia_tensor is compared with the statement's definition: J_c n n^T + A(|c|^2 1 - c c^T)",
]
BOUNDS = {"quick": {"n": "3,4 complete; every 4th 5-gon"}, "thorough": {"n": "3,4,5 complete x 3 placements each"}}
TAU = 1e-9

PL3 = A.placements_quick()
# in-plane placements (polygon stays in z=0 with +z normal possible): rotation by k*90deg about z, scale, in-plane shift
PL2 = [
    {"rz": 0, "scale": 1.0, "shift": [0.0, 0.0]},
    {"rz": 1, "scale": 1.0, "shift": [-7.0, 2.0]},
    {"rz": 2, "scale": 2.0**-10, "shift": [3.0, -2.0]},
    {"rz": 3, "scale": 1e3, "shift": [-1.0, -9.0]},
    {"rz": 0, "scale": 1e-3, "shift": [10.0, 4.0]},
    {"rz": 0, "scale": 1.0, "shift": [-5.0, -5.0]},
]


def cases(tier):
    out = []
    for n in (3, 4, 5):
        polys = A.p2_thin(n, 4)
        for i, c in enumerate(polys):
            if tier == "quick" and n == 5 and i % 4:
                continue
            for st in range(n):
                for ns, nspec in enumerate((None, "+", "-")):
                    k = i + st + ns
                    if tier == "quick":
                        pls = [("pl2", PL2[k % len(PL2)])] if (k % 2 == 0) else [("pl", PL3[k % len(PL3)])]
                    else:
                        pls = [("pl2", PL2[k % len(PL2)]), ("pl", PL3[k % len(PL3)]), ("pl", PL3[(k + 3) % len(PL3)])]
                    for key, pl in pls:
                        out.append({"poly": [list(p) for p in c], "start": st, "normal": nspec, key: pl})
                    if k % 8 == 0:
                        tp = A.placements_tiny()
                        out.append({"poly": [list(p) for p in c], "start": st, "normal": nspec, "pl": tp[k // 8 % len(tp)]})
    return out


def place(case, pts2):
    """-> (float (N,3) vertices, law dict: s, R (3x3), t)"""
    P = np.array([[float(x), float(y), 0.0] for x, y in pts2])
    if "pl" in case:
        pl = case["pl"]
        R = np.array(A.rot_matrix(pl["rot"]))
        s = A.SCALES[pl["scale"]]
        L = float(np.max(np.linalg.norm(P[:, None] - P[None], axis=-1)))
        t = np.array(A.SHIFTS[pl["shift"]]) * L * s
        return (P @ R.T) * s + t, s, R, t
    pl = case["pl2"]
    k = pl["rz"]
    c, sn = [(1.0, 0.0), (0.0, 1.0), (-1.0, 0.0), (0.0, -1.0)][k]
    R = np.array([[c, -sn, 0.0], [sn, c, 0.0], [0.0, 0.0, 1.0]])
    s = pl["scale"]
    L = float(np.max(np.linalg.norm(P[:, None] - P[None], axis=-1)))
    t = np.array([pl["shift"][0], pl["shift"][1], 0.0]) * L * s
    if "abs" in pl:
        # absolute (dyadic) shift: "any centre offset" - 2^27 sizes away the coordinates are still exact to 3e-8
        t = np.array([pl["abs"][0], pl["abs"][1], 0.0])
    return (P @ R.T) * s + t, s, R, t


def run_case(case):
    from coxeter.shapes import ConvexPolygon, Polygon

    rep = Report()
    poly = [tuple(p) for p in case["poly"]]
    st = case["start"]
    cyc = poly[st:] + poly[:st]
    n = len(cyc)
    A2 = X.shoelace2(cyc)
    orient = 1 if A2 > 0 else -1
    ccw = cyc if orient > 0 else cyc[::-1]
    Aex, Sx, Sy, Ixx, Iyy, Ixy = X.polygon_moments(ccw)  # positive orientation -> true integrals
    cx, cy = Sx / Aex, Sy / Aex
    Jc = (Ixx - Aex * cx * cx) + (Iyy - Aex * cy * cy)
    per = sum(math.sqrt((cyc[i][0] - cyc[(i + 1) % n][0]) ** 2 + (cyc[i][1] - cyc[(i + 1) % n][1]) ** 2) for i in range(n))
    o1 = X.sign(X._orient2(cyc[0], cyc[1], cyc[2]))  # default normal = o1 * z
    nspec = case["normal"]
    nz = {None: o1, "+": 1, "-": -1}[nspec]
    F, s, R, t = place(case, cyc)
    nvec = R @ np.array([0.0, 0.0, float(nz)])
    c3 = s * (R @ np.array([float(cx), float(cy), 0.0])) + t
    L = float(np.max(np.linalg.norm(F[:, None] - F[None], axis=-1)))
    D = L + float(np.linalg.norm(F.mean(0)))
    area = s * s * float(Aex)
    Jc3 = s**4 * float(Jc)
    want = {
        "area": (area, TAU * L * D),
        "signed_area": (area * orient * nz, TAU * L * D),
        "perimeter": (s * per, TAU * D),
        "centroid": (c3, TAU * D),
        "center": (c3, TAU * D),
        "polar_moment_inertia": (Jc3 + area * (c3 @ c3 - (nvec @ c3) ** 2), TAU * L * L * D * D),
        "inertia_tensor": (Jc3 * np.outer(nvec, nvec) + area * ((c3 @ c3) * np.eye(3) - np.outer(c3, c3)), TAU * L * L * D * D),
    }
    planar_applies = "pl2" in case and nz == 1
    if planar_applies:
        # exact integrals over the float polygon itself
        q = [(Fr(float(v[0])), Fr(float(v[1]))) for v in F]
        if X.shoelace2(q) < 0:
            q = q[::-1]
        _, _, _, ixx, iyy, ixy = X.polygon_moments(q)
        want["planar_moments_inertia"] = (np.array([float(iyy), float(ixx), float(ixy)]), TAU * L * L * D * D)
    rep.states += 1
    rep.traces += 1
    if orient < 0 or o1 < 0 or nspec is not None or case.get("pl", None) not in (None, A.placement()):
        rep.nontrivial += 1

    def run_on(cls, verts, label, expect):
        Fin = verts.copy()
        kw = {}
        nin = None
        if nspec is not None:
            nin = nvec.copy() * 2.5  # un-normalised on purpose
            kw["normal"] = nin.copy()
        try:
            obj = cls(Fin, **kw)
        except Exception as ex:
            rep.violation("construct", label, "__init__", "raised:" + type(ex).__name__, case, "%s constructor raised %r on a simple planar polygon" % (label, ex))
            return
        for name, (w, tol) in expect.items():
            rep.transitions += 1
            try:
                got = getattr(obj, name)
                if name == "planar_moments_inertia":
                    got = np.asarray(got, float)
            except Exception as ex:
                rep.violation("measure", label, name, "raised:" + type(ex).__name__, case, "%s raised %r" % (name, ex))
                continue
            err = maxerr(got, w)
            rep.peak(label + "." + name, err / tol)
            if err <= tol:
                rep.ok(name)
            else:
                mode = "mismatch"
                # classify against the known wrong-value models (used only to label the failure)
                try:
                    if name == "planar_moments_inertia" and maxerr(np.abs(np.asarray(got)), np.abs(np.asarray(w))) <= tol:
                        mode = "sign-lost"
                    if name == "signed_area" and maxerr(-np.asarray(got), w) <= tol:
                        mode = "sign-flipped"
                except Exception:
                    pass
                rep.violation("measure", label, name, mode, case, "%s.%s: got %s want %s (|err|=%.3g > tol=%.3g; orientation=%s about +z, default-normal sign=%+d, normal=%s)" % (label, name, np.asarray(got).tolist(), np.asarray(w).tolist(), err, tol, "ccw" if orient > 0 else "cw", o1, nspec), expected=w, got=got, tol=tol)
        # the stored normal is the unit vector of the requested direction
        rep.transitions += 1
        if maxerr(obj.normal, nvec) <= 1e-9:
            rep.ok("normal")
        else:
            rep.violation("measure", label, "normal", "mismatch", case, "normal %s, expected %s" % (np.asarray(obj.normal).tolist(), nvec.tolist()))

    run_on(Polygon, F, "Polygon", want)
    if "pl2" in case:
        # input forms: a polygon in z = 0 may be given as (N,2) vertices, as nested lists, and (when the coordinates are
        # whole numbers) as an integer array - the measures are those of the same polygon
        run_on(Polygon, F[:, :2], "Polygon[(N,2) vertices]", want)
        if np.all(F == np.round(F)) and np.max(np.abs(F)) < 2**31:
            run_on(lambda v, **kw: Polygon(v.astype(np.int64), **kw), F, "Polygon[int64 vertices]", want)
            run_on(lambda v, **kw: Polygon([[int(x) for x in r] for r in v[:, :2]], **kw), F, "Polygon[nested lists of int]", want)
    if X.is_convex_ccw(ccw):
        # ConvexPolygon orders the vertices counter-clockwise about the normal whatever the input order
        wc = dict(want)
        wc["signed_area"] = (area, TAU * L * D)
        perm = list(range(n))
        k = (st + n) % n
        if n > 3:
            perm[1], perm[2] = perm[2], perm[1]  # a non-cyclic input order
        # with a default normal the permuted first three vertices define the normal's sign
        if nspec is None:
            o_perm = X.sign(X._orient2(cyc[perm[0]], cyc[perm[1]], cyc[perm[2]]))
            nvec_c = R @ np.array([0.0, 0.0, float(o_perm)])
            nz_c = o_perm
        else:
            nvec_c, nz_c = nvec, nz
        wc["polar_moment_inertia"] = (Jc3 + area * (c3 @ c3 - (nvec_c @ c3) ** 2), TAU * L * L * D * D)
        wc["inertia_tensor"] = (Jc3 * np.outer(nvec_c, nvec_c) + area * ((c3 @ c3) * np.eye(3) - np.outer(c3, c3)), TAU * L * L * D * D)
        if "planar_moments_inertia" in wc and nz_c != 1:
            del wc["planar_moments_inertia"]
        if nspec is None and nz_c == 1 and "pl2" in case and "planar_moments_inertia" not in wc:
            wc["planar_moments_inertia"] = want.get("planar_moments_inertia") or _planar(F, TAU * L * L * D * D)
        save_nvec = nvec
        nvec = nvec_c
        run_on(ConvexPolygon, F[perm], "ConvexPolygon", wc)
        nvec = save_nvec
    rep.sample({"case": case, "area": float(Aex), "orientation": orient, "default_normal_sign": o1})
    return rep


def _planar(F, tol):
    q = [(Fr(float(v[0])), Fr(float(v[1]))) for v in F]
    if X.shoelace2(q) < 0:
        q = q[::-1]
    _, _, _, ixx, iyy, ixy = X.polygon_moments(q)
    return (np.array([float(iyy), float(ixx), float(ixy)]), tol)
