"""C14 - distance_to_surface is the radial distance from the centre to the boundary."""
import math
from fractions import Fraction as Fr

import numpy as np

from .. import alphabet as A
from .. import exact as X
from ..common import Report

PROPERTY = "C14"
ENGINE = "E2"
TECHNIQUE = "bounded-exhaustive enumeration of convex/rounded polygons, ellipses x in-plane placements x angle alphabet vs exact ray-boundary distance"
RULE = (
    "cases = shape in the xy-plane (ConvexPolygon over convex lattice polygons CP2, axis-aligned rectangles and regular n-gons 3..30 - "
    "each in both vertex orders, i.e. both normals -, ConvexSpheropolygon over the same cores x rounding radii {0, 0.1, 1, 10} L, "
    "Ellipse over all CURV axis pairs, Circle) x in-plane placement (rotation by k*pi/7 or k*90deg, scale, offset) x angle alphabet "
    "(k*pi/12 for k=-48..48, every exact vertex direction and +-1e-9 around it, +-2pi shifts); the returned distance is compared "
    "with the exact ray/boundary distance from the centroid (core centroid for rounded shapes; exact rational centroid, ray against "
    "edges / offset edges and vertex arcs filtered by distance-to-core = r).  Also: spheropolygons built from clockwise input; sizes down to 1e-9; edges tilted by 1e-6 from vertical/horizontal; whole-radian angles as int64 / int32 arrays and lists of ints must give what they give as floats.  non-trivial = angle outside [0, 2pi) or pointing at a "
    "vertex, or a non-identity placement."
)
ASSUMPTIONS = ["'theta uniform in [-4pi, 4pi]' replaced by the 97-point grid plus vertex directions and their +-1e-9 neighbours"]
BOUNDS = {"quick": {"cores": "CP2(<=5) every 4th, 8 rectangles, n-gons 3..30", "radii": 4}, "thorough": {"cores": "all CP2(<=5)"}}
TAU = 1e-9
RADII = [0.0, 0.1, 1.0, 10.0]
CHUNK = 8


def in_plane(k):
    rots = [0.0, math.pi / 2, math.pi / 7, 3 * math.pi / 7, math.pi, 5 * math.pi / 7, -math.pi / 2, 2.0]
    scales = [1.0, 1.0, 2.0**-10, 1e3, 1e-3, 1.0, 2.0**10, 1e-9]
    shifts = [(0.0, 0.0), (3.0, -2.0), (0.0, 0.0), (-7.0, 0.5), (10.0, 4.0), (-1.0, -9.0), (0.0, 0.0), (5.0, 5.0)]
    return {"phi": rots[k % 8], "scale": scales[(k // 2) % 8], "shift": list(shifts[(k // 3) % 8])}


def cases(tier):
    out = []
    q = tier == "quick"
    k = 0
    cores = []
    for i, c in enumerate(A.cp2(5, 4)):
        if q and i % 4:
            continue
        cores.append(("cp2", [list(p) for p in c]))
    for w, h in ((1, 1), (3, 1), (1, 3), (2, 3)):
        cores.append(("rect", [[0, 0], [w, 0], [w, h], [0, h]]))
        cores.append(("rect", [[-w, -h], [0, -h], [0, 0], [-w, 0]]))
    # steep but not vertical / shallow but not horizontal edges (dx/|x| ~ 1e-6): an 'is it vertical?' test with a
    # tolerance would treat them as exactly vertical
    for eps in (1e-6, -1e-6, 3e-5):
        cores.append(("steep", [[0, 0], [2, 0], [2 + eps, 3], [0, 3 - eps]]))
        cores.append(("steep", [[-1, -2], [1, -2 + eps], [1 - eps, 1], [-1, 1]]))
    for name, poly in cores:
        for order in ("ccw", "cw"):
            out.append({"kind": "polygon", "poly": poly, "order": order, "pl": in_plane(k), "fam": name})
            k += 1
        for r in RADII:
            for order in ("ccw", "cw"):
                out.append({"kind": "sphero", "poly": poly, "r": r, "order": order, "pl": in_plane(k), "fam": name})
            k += 1
    for n in range(3, 31):
        for order in ("ccw", "cw"):
            out.append({"kind": "polygon", "ngon": n, "order": order, "pl": in_plane(k)})
            k += 1
        for r in RADII:
            if q and (n + RADII.index(r)) % 2:
                continue
            out.append({"kind": "sphero", "ngon": n, "r": r, "order": "cw" if (n + RADII.index(r)) % 4 < 2 else "ccw", "pl": in_plane(k)})
            k += 1
    for ia, a in enumerate(A.AXES):
        for c in range(4):
            out.append({"kind": "circle", "r": a, "centre": c})
        for ib, b in enumerate(A.AXES):
            out.append({"kind": "ellipse", "ab": [a, b], "centre": (ia + ib) % 4})
    return out


def placed_polygon(case):
    """-> (float (N,2) ccw vertices in the world frame, exact-ish centroid (float), L)"""
    pl = case["pl"]
    if "ngon" in case:
        base = np.array(A.regular_ngon(case["ngon"], 0.0), float)
        cen0 = np.zeros(2)
    else:
        poly = [tuple(Fr(float(x)) for x in p) for p in case["poly"]]  # floats are rationals: exact centroid
        base = np.array([[float(x) for x in p] for p in poly], float)
        Aex, Sx, Sy, *_ = X.polygon_moments(poly)
        cen0 = np.array([float(Sx / Aex), float(Sy / Aex)])
    c, s_ = math.cos(pl["phi"]), math.sin(pl["phi"])
    R = np.array([[c, -s_], [s_, c]])
    L0 = float(np.max(np.linalg.norm(base[:, None] - base[None], axis=-1)))
    t = np.array(pl["shift"]) * L0 * pl["scale"]
    V = (base @ R.T) * pl["scale"] + t
    cen = (R @ cen0) * pl["scale"] + t
    return V, cen, L0 * pl["scale"]


def ray_polygon(V, cen, th):
    """distance from cen along angle th to the boundary of the convex polygon V (ccw)."""
    u = np.array([math.cos(th), math.sin(th)])
    best = None
    n = len(V)
    for i in range(n):
        a, b = V[i] - cen, V[(i + 1) % n] - cen
        e = b - a
        den = u[0] * e[1] - u[1] * e[0]
        if abs(den) < 1e-300:
            continue
        d = (a[0] * e[1] - a[1] * e[0]) / den
        tau = (a[0] * u[1] - a[1] * u[0]) / den
        if d > 0 and -1e-12 <= tau <= 1 + 1e-12:
            if best is None or d < best:
                best = d
    return best


def dist_to_polygon(V, p):
    """distance from p to the convex polygon region V (0 inside)."""
    n = len(V)
    inside = True
    best = float("inf")
    for i in range(n):
        a, b = V[i], V[(i + 1) % n]
        e = b - a
        if e[0] * (p[1] - a[1]) - e[1] * (p[0] - a[0]) < 0:
            inside = False
        tt = min(1.0, max(0.0, float((p - a) @ e) / float(e @ e)))
        best = min(best, float(np.linalg.norm(p - (a + tt * e))))
    return 0.0 if inside else best


def ray_rounded(V, cen, r, th, L):
    if r == 0:
        return ray_polygon(V, cen, th)
    u = np.array([math.cos(th), math.sin(th)])
    cands = []
    n = len(V)
    for i in range(n):
        a, b = V[i], V[(i + 1) % n]
        e = b - a
        nrm = np.array([e[1], -e[0]]) / np.linalg.norm(e)  # outward for ccw
        a2, b2 = a + r * nrm - cen, b + r * nrm - cen
        den = u[0] * e[1] - u[1] * e[0]
        if abs(den) > 1e-300:
            d = (a2[0] * e[1] - a2[1] * e[0]) / den
            if d > 0:
                cands.append(d)
        w = V[i] - cen
        bq = -2 * (u @ w)
        cq = w @ w - r * r
        disc = bq * bq - 4 * cq
        if disc >= 0:
            d = (-bq + math.sqrt(disc)) / 2
            if d > 0:
                cands.append(d)
    good = [d for d in cands if abs(dist_to_polygon(V, cen + d * u) - r) <= 1e-9 * (L + r)]
    if not good:
        return None
    return max(good)


def angle_alphabet(V, cen):
    ang = [k * math.pi / 12 for k in range(-48, 49)] + [float(k) for k in range(-7, 8)]  # whole radians too (see input forms below)
    special = []
    if V is not None:
        for v in V:
            a = math.atan2(v[1] - cen[1], v[0] - cen[0])
            special += [a, a + 1e-9, a - 1e-9, a + 2 * math.pi, a - 2 * math.pi, a - 4 * math.pi]
    return np.array(ang + special), len(ang)


def run_case(case):
    from coxeter import shapes as S

    rep = Report()
    kind = case["kind"]
    if kind in ("polygon", "sphero"):
        V, cen, L = placed_polygon(case)
        angles, ngrid = angle_alphabet(V, cen)
        if kind == "polygon":
            Vin = V if case["order"] == "ccw" else V[::-1]
            try:
                obj = S.ConvexPolygon(np.hstack([Vin, np.zeros((len(V), 1))]).copy())
            except Exception as ex:
                rep.violation("construct", "ConvexPolygon", "__init__", "raised:" + type(ex).__name__, case, repr(ex))
                return rep
            label = "ConvexPolygon"
            want = np.array([ray_polygon(V, cen, th) for th in angles])
            r = 0.0
        else:
            r = case["r"] * L
            try:
                # clockwise input gives a core whose stored normal is -z (the shape still lies in the xy-plane)
                Vin = V if case.get("order", "ccw") == "ccw" else V[::-1]
                obj = S.ConvexSpheropolygon(np.hstack([Vin, np.zeros((len(V), 1))]).copy(), r)
            except Exception as ex:
                rep.violation("construct", "ConvexSpheropolygon", "__init__", "raised:" + type(ex).__name__, case, repr(ex))
                return rep
            label = "ConvexSpheropolygon"
            want = np.array([ray_rounded(V, cen, r, th, L) or np.nan for th in angles])
        scale = L + r
    else:
        if kind == "circle":
            a = b = case["r"]
            cen3 = A.curv_centres(2 * a)[case["centre"]]
            obj = S.Circle(a, cen3)
            label = "Circle"
        else:
            a, b = case["ab"]
            cen3 = A.curv_centres(2 * max(a, b))[case["centre"]]
            obj = S.Ellipse(a, b, cen3)
            label = "Ellipse"
        angles, ngrid = angle_alphabet(None, None)
        angles = np.concatenate([angles, [1e-9, -1e-9, math.pi / 2 + 1e-9, 7.0, -7.0, 100.0]])
        want = np.array([1.0 / math.sqrt((math.cos(t) / a) ** 2 + (math.sin(t) / b) ** 2) for t in angles])
        scale = max(a, b)
    rep.states += 1
    rep.traces += 1
    ain = angles.copy()
    try:
        got = np.asarray(obj.distance_to_surface(ain), float)
    except Exception as ex:
        rep.violation("radial", label, "distance_to_surface", "raised:" + type(ex).__name__, case, "distance_to_surface raised %r" % (ex,))
        return rep
    rep.transitions += len(angles)
    if not np.array_equal(ain, angles):
        rep.violation("radial", label, "distance_to_surface", "argument-mutated", case, "the angle array was modified")
    if got.shape != angles.shape:
        rep.violation("radial", label, "distance_to_surface", "bad-result-shape", case, "shape %s for %d angles" % (got.shape, len(angles)))
        return rep
    ok_ref = np.isfinite(want)
    rep.skip("reference-undecided", int((~ok_ref).sum()))
    err = np.abs(got - want)
    tol = TAU * scale * 100
    bad = np.where(ok_ref & ~(err <= tol))[0]
    special = np.arange(len(angles)) >= ngrid
    rep.nontrivial += int(np.sum((angles < 0) | (angles >= 2 * math.pi) | special))
    rep.peak(label, float(np.nanmax(np.where(ok_ref, err, 0.0))) / tol if np.all(np.isfinite(np.where(ok_ref, err, 0.0))) else 1e9)
    if len(bad) == 0:
        rep.ok("radial-distance", int(ok_ref.sum()))
    else:
        modes = {}
        for i in bad:
            th = angles[i]
            if not np.isfinite(got[i]):
                m = "non-finite" + ("-outside-0-2pi" if (th < 0 or th >= 2 * math.pi) else "")
            elif kind == "polygon" and case["order"] == "cw" and abs(got[i] - (ray_polygon(V, cen, math.pi - th) or -1)) <= tol:
                m = "mirror-image-answer"
            elif kind == "polygon" and case["order"] == "cw" and abs(got[i] - (ray_polygon(V, cen, -th) or -1)) <= tol:
                m = "mirror-image-answer"
            else:
                m = "mismatch"
            modes.setdefault(m, i)
        for m, i in modes.items():
            rep.violation("radial", label, "distance_to_surface", m, case, "theta=%r: got %r, exact radial distance %r (|err|=%.3g > %.3g); %d of %d angles wrong" % (float(angles[i]), float(got[i]), float(want[i]), float(err[i]), tol, len(bad), len(angles)), expected=float(want[i]), got=float(got[i]))
    # input forms: "every array of angles" - whole radians given as int64 / int32 arrays and as a list of Python ints must
    # give what the same angles give as floats (pinned against the exact distance above)
    whole = np.arange(-7, 8)
    try:
        ref = np.asarray(obj.distance_to_surface(whole.astype(float)), float)
        forms = {"int64-array": whole.astype(np.int64), "int32-array": whole.astype(np.int32), "list-of-int": [int(k) for k in whole]}
        for fname, arr in forms.items():
            rep.transitions += 1
            try:
                g = np.asarray(obj.distance_to_surface(arr), float)
            except Exception as ex:
                rep.violation("radial", label, "distance_to_surface", "input-form-raised:" + fname, case, "angles as %s: raised %r" % (fname, ex))
                continue
            if g.shape == ref.shape and np.all(np.abs(g - ref) <= tol):
                rep.ok("input-form:" + fname)
            else:
                rep.violation("radial", label, "distance_to_surface", "input-form-differs:" + fname, case, "angles %s as %s give %s, as float64 %s" % (whole.tolist()[:4], fname, g.tolist()[:4], ref.tolist()[:4]))
    except Exception as ex:
        rep.violation("radial", label, "distance_to_surface", "raised:" + type(ex).__name__, case, "distance_to_surface(whole radians) raised %r" % (ex,))
    rep.sample({"case": case, "angles": int(len(angles))})
    return rep
