"""C10 - circle, ellipse, sphere and ellipsoid measures equal their defining integrals."""
import math

import numpy as np

from .. import alphabet as A
from .. import curved_ref as C
from ..common import Report
from ..refs import maxerr

PROPERTY = "C10"
ENGINE = "E2"
TECHNIQUE = "exhaustive enumeration of the axis alphabet (all ordered pairs/triples incl. ties and near-ties) x centres vs independently computed closed forms (AGM, Carlson)"
RULE = (
    "cases = every ordered pair/triple of semi-axes from the 9-value alphabet {1e-3,.3,1,1+2^-52,1+1e-12,1+1e-6,2,7.5,1e3} "
    "(ties, near-ties, prolate, oblate, needle, disc) x 4 centres with distinct components (up to 10 diameters) for Circle, "
    "Ellipse, Sphere, Ellipsoid - enumerated completely; area/volume, perimeter/surface area, eccentricity, iq, planar and "
    "polar moments, inertia tensor compared with closed forms whose special functions are computed independently (AGM, "
    "Carlson R_G by duplication, 50-digit decimal), the centre being handled by the parallel-axis theorem in the reference.  "
    "non-trivial = off-origin or non-equal-axes case."
)
ASSUMPTIONS = ["the reference special functions are validated at start-up against closed-form spheroids and brute-force quadrature (8 model-validation traces)", "for the planar shapes only the zz component of inertia_tensor (= polar moment about the origin) is pinned"]
BOUNDS = {"quick": {"circle": "9x4", "ellipse": "81x4", "sphere": "9x4", "ellipsoid": "729 x 2 centres"}, "thorough": {"ellipsoid": "729x4"}}
TAU = 1e-9
_VALID = None


def cases(tier):
    out = []
    ax = A.AXES
    for a in ax:
        for k in range(4):
            out.append({"cls": "Circle", "axes": [a], "centre": k})
            out.append({"cls": "Sphere", "axes": [a], "centre": k})
    for a in ax:
        for b in ax:
            for k in range(4):
                out.append({"cls": "Ellipse", "axes": [a, b], "centre": k})
    for ia, a in enumerate(ax):
        for ib, b in enumerate(ax):
            for ic, c in enumerate(ax):
                for k in range(4):
                    if tier == "quick" and (k + ia + ib + ic) % 2:
                        continue
                    out.append({"cls": "Ellipsoid", "axes": [a, b, c], "centre": k})
    out.insert(0, {"cls": "selfcheck"})
    return out


def run_case(case):
    from coxeter import shapes as S

    rep = Report()
    if case["cls"] == "selfcheck":
        for e in C.self_validate():
            lim = 1e-12 if e[0] == "spheroid" else (1e-10 if e[0] == "perimeter" else 1e-5)
            rep.traces += 1
            if e[3] > lim:
                rep.violation("reference", "curved_ref", e[0], "reference-self-check", case, "reference model failed its own validation: %r" % (e,))
            else:
                rep.ok("reference-self-check")
        return rep
    cls = case["cls"]
    ax = case["axes"]
    cen = A.curv_centres(2 * max(ax))[case["centre"]]
    c = np.array(cen, float)
    rep.states += 1
    rep.traces += 1
    if case["centre"] != 0 or len(set(ax)) > 1:
        rep.nontrivial += 1
    try:
        # centre 0 is the origin: those cases use the documented default (no centre argument)
        obj = getattr(S, cls)(*ax) if case["centre"] == 0 and all(x == 0 for x in cen) else getattr(S, cls)(*ax, cen)
    except Exception as ex:
        rep.violation("construct", cls, "__init__", "raised:" + type(ex).__name__, case, repr(ex))
        return rep
    want = {}
    pi = math.pi
    if cls in ("Circle", "Ellipse"):
        a, b = (ax[0], ax[0]) if cls == "Circle" else ax
        area = pi * a * b
        per = float(C.ellipse_perimeter(a, b))
        lo, hi = min(a, b), max(a, b)
        want["area"] = (area, TAU * area)
        want["perimeter"] = (per, TAU * per)
        want["circumference"] = (per, TAU * per)
        want["eccentricity"] = (float((1 - C.dm(lo) ** 2 / C.dm(hi) ** 2).sqrt()), 1e-9 + 4e-8 * (1 if 0 < hi / lo - 1 < 1e-6 else 0))
        iq = 4 * pi * area / per**2
        want["iq"] = (iq, 1e-9 * iq)  # relative: iq is ~1e-6 for needles
        ix = area * b * b / 4 + area * c[1] ** 2
        iy = area * a * a / 4 + area * c[0] ** 2
        ixy = area * c[0] * c[1]
        scale = area * (hi * hi + c[0] ** 2 + c[1] ** 2)
        want["planar_moments_inertia"] = (np.array([ix, iy, ixy]), TAU * scale)
        want["polar_moment_inertia"] = (ix + iy, TAU * scale)
        want["inertia_tensor[2,2]"] = (ix + iy, TAU * scale)
    else:
        a, b, cc = (ax[0],) * 3 if cls == "Sphere" else ax
        vol = 4.0 / 3.0 * pi * a * b * cc
        sur = float(C.ellipsoid_area(a, b, cc))
        want["volume"] = (vol, TAU * vol)
        want["surface_area"] = (sur, TAU * sur)
        iq = 36 * pi * vol**2 / sur**3
        want["iq"] = (iq, 1e-9 * iq)  # relative: iq is ~1e-6 for needles
        Ic = np.diag([vol / 5 * (b * b + cc * cc), vol / 5 * (a * a + cc * cc), vol / 5 * (a * a + b * b)])
        I = Ic + vol * ((c @ c) * np.eye(3) - np.outer(c, c))
        want["inertia_tensor"] = (I, TAU * vol * (max(a, b, cc) ** 2 + c @ c))
    for name, (w, tol) in want.items():
        rep.transitions += 1
        try:
            if name == "inertia_tensor[2,2]":
                got = float(np.asarray(obj.inertia_tensor, float)[2, 2])
            else:
                got = getattr(obj, name)
                if isinstance(got, tuple):
                    got = np.asarray(got, float)
        except AttributeError:
            continue
        except NotImplementedError:
            continue
        except Exception as ex:
            rep.violation("measure", cls, name, "raised:" + type(ex).__name__, case, "%s raised %r" % (name, ex))
            continue
        err = maxerr(got, w)
        rep.peak(cls + "." + name, err / tol)
        if err <= tol:
            rep.ok(name)
        else:
            mode = "mismatch"
            if name == "planar_moments_inertia":
                sw = np.array([w[0] - area * c[1] ** 2 + area * c[0] ** 2, w[1] - area * c[0] ** 2 + area * c[1] ** 2, w[2]])
                if maxerr(got, sw) <= tol:
                    mode = "parallel-axis-terms-swapped"
            rep.violation("measure", cls, name, mode, case, "%s.%s: got %s want %s (|err|=%.3g > tol=%.3g)" % (cls, name, np.asarray(got).tolist(), np.asarray(w).tolist(), err, tol), expected=w, got=got, tol=tol)
    # iq <= 1 and = 1 only for circle/sphere
    rep.transitions += 1
    try:
        q = float(obj.iq)
        equal = len(set(ax)) == 1
        if q > 1 + 1e-12 or (equal and abs(q - 1) > 1e-12) or (not equal and max(ax) / min(ax) > 1 + 1e-5 and q >= 1):
            rep.violation("measure", cls, "iq", "bound", case, "iq=%r for axes %s" % (q, ax))
        else:
            rep.ok("iq-bound")
    except Exception as ex:
        rep.violation("measure", cls, "iq", "raised:" + type(ex).__name__, case, repr(ex))
    rep.sample({"case": case, "centre": cen})
    return rep
