"""C02 - general (non-convex) polyhedron measures are exact.  Engine E2."""
import itertools
from fractions import Fraction as Fr

import numpy as np

from .. import alphabet as A
from .. import exact as X
from .. import families_alpha as FA
from ..common import Report
from ..refs import MeshRef, maxerr

PROPERTY = "C02"
ENGINE = "E2"
TECHNIQUE = "bounded-exhaustive enumeration of closed meshes (all manifold voxel solids of small boxes, extrusions, radial perturbations) vs exact mesh integrals"
LEVEL_TEXT = "All face-connected manifold voxel solids of the listed boxes (including non-star-shaped and genus-1), all ccw lattice extrusions and radially perturbed hulls are executed and compared with exact integrals; inputs are validated exactly as closed oriented meshes first."
RULE = (
    "cases = closed outward-oriented meshes: VOX voxel solids (incl. non-star-shaped and genus-1), EXT extruded simple lattice "
    "polygons with exactly ear-clipped caps, RAD radially perturbed triangulated lattice hulls (star-shaped), Polyhedron copies "
    "of exact lattice hulls - each x placements; inputs are validated exactly (closed oriented manifold, positive volume) before "
    "use; Polyhedron.volume/surface_area/get_face_area(None|int|list)/centroid/inertia_tensor are compared with exact "
    "integer-arithmetic mesh integrals of the very floats passed in.  non-trivial = case whose solid is not a box or whose "
    "placement is not the identity."
)
ASSUMPTIONS = ["'arbitrary rigid placement' covered by the finite placement group G (24 lattice + 3 generic rational rotations, 3 shifts, 5 scales)"]
BOUNDS = {
    "quick": {"VOX": "2x2x2 and 3x3x1, 6 placements", "EXT": "P2(4,4) ccw x heights {1,3} x 2 placements; every 5th P2(5,4)", "RAD": "every 12th S3(5) hull x all <=2-vertex factor assignments", "COPY": "S3(<=5) x 2 placements"},
    "thorough": {"VOX": "+3x2x2, medium placements", "EXT": "P2(<=5,4) x 8 placements", "RAD": "every 3rd hull", "COPY": "S3(<=6) x 8 placements"},
}
TAU = 1e-9


def _ccw_polys(n):
    return [c for c in A.p2_thin(n, 4) if X.shoelace2(c) > 0]


def cases(tier):
    pq = A.placements_quick()
    out = []
    boxes = [(2, 2, 2), (3, 3, 1)] + ([(3, 2, 2)] if tier == "thorough" else [])
    for box in boxes:
        n = len(A.vox(box))
        for i in range(n):
            pls = pq[:6] if tier == "quick" else (A.placements_medium() if box != (3, 2, 2) else pq)
            for pl in pls:
                out.append({"fam": "vox", "box": list(box), "i": i, "pl": pl})
            if i % 4 == 0:
                for pl in A.placements_tiny():
                    out.append({"fam": "vox", "box": list(box), "i": i, "pl": pl})
    for n in (4, 5):
        polys = _ccw_polys(n)
        for i, c in enumerate(polys):
            if tier == "quick" and n == 5 and i % 5:
                continue
            for h in (1, 3):
                pls = pq if tier == "thorough" else [pq[0], pq[1 + (i + h) % 7]]
                for pl in pls:
                    out.append({"fam": "ext", "poly": [list(p) for p in c], "h": h, "pl": pl})
    step = 12 if tier == "quick" else 3
    for si, S in enumerate(A.s3(5)):
        if si % step:
            continue
        k = len(S)
        assigns = []
        for nz in (1, 2):
            for where in itertools.combinations(range(k), nz):
                for facs in itertools.product(("3/4", "5/4"), repeat=nz):
                    assigns.append(dict(zip(map(str, where), facs)))
        for j, a in enumerate(assigns):
            out.append({"fam": "rad", "pts": S, "fac": a, "pl": pq[(si + j) % 8]})
    # prisms whose caps are single convex faces with 6..10 corners (the face triangulation has real work to do), every
    # cyclic start of the cap's vertex list
    for name, poly in BIGCAPS.items():
        n = len(poly)
        for st in range(n):
            for j in range(2 if tier == "quick" else 4):
                out.append({"fam": "capprism", "cap": name, "start": st, "h": 1 + (st % 2), "pl": pq[(st + 3 * j + n) % 8]})
    kmax = 5 if tier == "quick" else 6
    for S in A.s3_upto(kmax):
        pls = pq if tier == "thorough" else [pq[0], pq[3]]
        for pl in pls:
            out.append({"fam": "copy", "pts": S, "pl": pl})
    return out


BIGCAPS = {
    "hexagon": [(1, 0), (2, 0), (3, 1), (2, 2), (1, 2), (0, 1)],
    "octagon": [(1, 0), (2, 0), (3, 1), (3, 2), (2, 3), (1, 3), (0, 2), (0, 1)],
    "heptagon": [(0, 0), (2, -1), (4, 0), (5, 2), (4, 4), (1, 5), (-1, 3)],
    "decagon": [(2, 0), (4, 0), (6, 1), (7, 3), (7, 5), (6, 7), (4, 8), (2, 8), (0, 6), (0, 2)],
    "nonagon-thin": [(0, 0), (8, 0), (16, 1), (23, 3), (24, 4), (23, 5), (16, 7), (8, 8), (0, 8)],
}


def build_mesh(case):
    """-> (base points (exact numbers), faces as index lists, outward) or None"""
    if case["fam"] == "capprism":
        poly = BIGCAPS[case["cap"]]
        n, h, st = len(poly), case["h"], case["start"]
        verts = [(p[0], p[1], 0) for p in poly] + [(p[0], p[1], h) for p in poly]
        top = [n + i for i in range(n)]
        bot = list(range(n))[::-1]
        faces = [bot[st:] + bot[:st], top[st:] + top[:st]]
        for i in range(n):
            j = (i + 1) % n
            faces.append([i, j, n + j, n + i])
        return verts, faces, None
    if case["fam"] == "vox":
        v = A.vox(tuple(case["box"]))[case["i"]]
        return [tuple(p) for p in v["verts"]], [list(f) for f in v["faces"]], v
    if case["fam"] == "ext":
        poly = [tuple(p) for p in case["poly"]]
        tris = X.triangulate_exact(poly)
        if tris is None:
            return None
        n, h = len(poly), case["h"]
        verts = [(p[0], p[1], 0) for p in poly] + [(p[0], p[1], h) for p in poly]
        faces = []
        for a, b, c in tris:
            faces.append([a, c, b])  # bottom cap looks down
            faces.append([n + a, n + b, n + c])
        for i in range(n):
            j = (i + 1) % n
            faces.append([i, j, n + j, n + i])
        return verts, faces, None
    if case["fam"] == "rad":
        P = [tuple(p) for p in case["pts"]]
        facets = X.hull_facets(P)
        tris = []
        for _, _, _, ext in facets:
            tris += [list(t) for t in X.tri_fan(ext)]
        k = len(P)
        c = tuple(Fr(sum(p[m] for p in P), k) for m in range(3))
        Q = []
        for i, p in enumerate(P):
            f = Fr(case["fac"].get(str(i), "1"))
            Q.append(tuple(c[m] + f * (p[m] - c[m]) for m in range(3)))
        return Q, tris, None
    if case["fam"] == "copy":
        P = [tuple(p) for p in case["pts"]]
        facets = X.hull_facets(P)
        return P, [list(ext) for _, _, _, ext in facets], None
    raise ValueError(case)


def run_case(case):
    from coxeter.shapes import Polyhedron

    rep = Report()
    m = build_mesh(case)
    if m is None:
        rep.skip("ear-clipping-degenerate")
        return rep
    base, faces, vox = m
    if not X.mesh_is_closed_oriented(faces):
        rep.skip("precondition:not-closed-oriented")
        return rep
    F = A.apply_placement(case["pl"], np.array([[float(x) for x in p] for p in base]))
    ref = MeshRef(F, faces)
    if ref.V <= 0:
        rep.skip("precondition:non-positive-volume")
        return rep
    rep.states += 1
    rep.traces += 1
    L, D = ref.L, ref.D
    is_box = vox is not None and A.vox_is_star_shaped_hint(vox["cells"])
    if case["pl"] != A.placement() or not is_box:
        rep.nontrivial += 1
    # model self-validation: voxel closed forms at the identity placement
    if vox is not None and case["pl"] == A.placement():
        cells = vox["cells"]
        Vc = float(len(cells))
        cc = [sum(c[m] + 0.5 for c in cells) / len(cells) for m in range(3)]
        I = np.zeros((3, 3))
        for c in cells:
            r = np.array([c[0] + 0.5, c[1] + 0.5, c[2] + 0.5])
            I += np.eye(3) / 6.0 + (r @ r) * np.eye(3) - np.outer(r, r)
        if abs(ref.V - Vc) > 1e-12 or maxerr(ref.centroid, cc) > 1e-12 or maxerr(ref.I, I) > 1e-9:
            rep.violation("reference", "MeshRef", "voxel-closed-form", "reference-self-check", case, "exact mesh integrals disagree with the voxel closed form")
        else:
            rep.ok("reference-self-check")
    Fin = F.copy()
    fin = [list(f) for f in faces]
    try:
        poly = Polyhedron(Fin, fin, faces_are_convex=True)
    except Exception as ex:
        rep.violation("construct", "Polyhedron", "__init__", "raised:" + type(ex).__name__, case, "constructor raised %r on a valid closed mesh" % (ex,))
        return rep
    area = ref.total_area()
    areas = ref.areas()
    kappa = max(1.0, area * L / (6.0 * ref.V))

    def guarded(name, fn, want, tol):
        rep.transitions += 1
        try:
            got = fn()
        except Exception as ex:
            rep.violation("measure", "Polyhedron", name, "raised:" + type(ex).__name__, case, "%s raised %r (L=%.3g)" % (name, ex, L))
            return
        err = maxerr(got, want)
        rep.peak(name, err / tol)
        if err <= tol:
            rep.ok(name)
        else:
            rep.violation("measure", "Polyhedron", name, "mismatch", case, "%s: got %s want %s (|err|=%.3g > tol=%.3g, L=%.3g D=%.3g)" % (name, np.asarray(got).tolist(), np.asarray(want).tolist(), err, tol, L, D), expected=want, got=got, tol=tol)

    guarded("volume", lambda: poly.volume, ref.V, TAU * L * L * D)
    guarded("surface_area", lambda: poly.surface_area, area, TAU * L * D)
    guarded("get_face_area()", lambda: np.asarray(poly.get_face_area(), float), np.array(areas), TAU * L * D)
    nf = len(faces)
    for i in sorted({0, nf // 2, nf - 1}):
        guarded("get_face_area(int)", lambda i=i: float(np.asarray(poly.get_face_area(i)).reshape(-1)[0]), areas[i], TAU * L * D)
    sel = [nf - 1, 0, 1]
    guarded("get_face_area(list)", lambda: np.asarray(poly.get_face_area(sel), float), np.array([areas[i] for i in sel]), TAU * L * D)
    guarded("centroid", lambda: poly.centroid, ref.centroid, TAU * D * kappa)
    guarded("center", lambda: poly.center, ref.centroid, TAU * D * kappa)
    guarded("inertia_tensor", lambda: poly.inertia_tensor, ref.I, TAU * L**3 * D * D)
    if not np.array_equal(Fin, F):
        rep.violation("measure", "Polyhedron", "__init__", "input-mutated", case, "vertex array passed to the constructor was modified")
    rep.sample({"case": case, "V": ref.V, "centroid": ref.centroid})
    return rep
