"""C09 - results are covariant under rotation, translation, scaling and relabelling.
Metamorphic E2: both sides come from the implementation; every public observable (by
reflection, via e1.observe) is registered with its transformation law."""
import copy
import warnings

import numpy as np

from .. import alphabet as A
from .. import e1
from .. import exact as X
from ..common import Report

PROPERTY = "C09"
ENGINE = "E2"
TECHNIQUE = "bounded-exhaustive metamorphic enumeration: base shapes x placement group / relabellings, every reflected observable compared through its transformation law"
RULE = (
    "cases = base shape x (lattice hulls S3 as ConvexPolyhedron / Polyhedron / ConvexSpheropolyhedron, VOX 2x2x2 voxel solids as "
    "Polyhedron, P2/CP2 lattice polygons as Polygon / ConvexPolygon / ConvexSpheropolygon, curved shapes) x g in the placement group "
    "G (24 lattice + 3 generic rational rotations, 3 shifts up to 10 diameters, scales 2^-10, 2^10, 1e-3, 1e3) or a relabelling "
    "(vertex permutation of a convex shape; cyclic shift of every face list, vertex relabelling, face-list reversal of a general "
    "polyhedron; cyclic shift of a polygon).  Every public observable of g.x (all properties by reflection, get_face_area, all "
    "dihedrals, is_inside on transformed probes, form factor at transformed q, distance_to_surface) must equal the law applied to "
    "the observable of x: length^k, points, vectors, plane equations, inertia s^5 R I_c R^T + parallel axis, invariants, containment, "
    "F -> s^3 exp(-i q'.t) F.  An observable that works on x must not raise on g.x.  non-trivial = non-identity g."
)
ASSUMPTIONS = ["'random proper rotations' replaced by the finite group G; products of two generators only through G's rotation x scale x shift product"]
BOUNDS = {"quick": {"bases": "~70 x 12 placements + relabellings"}, "thorough": {"bases": "~300 x 40 placements + relabellings"}}
CHUNK = 2

DIM = {"volume": 3, "surface_area": 2, "area": 2, "signed_area": 2, "perimeter": 1, "circumference": 1, "mean_curvature": 1, "radius": 1, "edge_lengths": 1, "get_face_area()": 2, "a": 1, "b": 1, "c": 1, "diameter": 1}
INVARIANT = {"iq", "tau", "asphericity", "eccentricity", "num_vertices", "num_faces", "num_edges", "faces", "neighbors", "edges", "get_dihedral(all)", "repr", "is_inside(probes)"}
POINT = {"centroid", "center"}
LABEL_FREE = {"volume", "surface_area", "area", "perimeter", "mean_curvature", "iq", "tau", "asphericity", "centroid", "center", "inertia_tensor", "num_vertices", "num_faces", "num_edges", "is_inside(probes)", "form_factor(q)", "polar_moment_inertia", "radius"}


def base_shapes(tier):
    q = tier == "quick"
    out = []
    for i, S in enumerate(A.s3(4)):
        if i % (40 if q else 10) == 0:
            out.append({"cls": "ConvexPolyhedron", "pts": S})
            out.append({"cls": "Polyhedron", "pts": S})
        if i % (90 if q else 30) == 0:
            out.append({"cls": "ConvexSpheropolyhedron", "pts": S, "r": 0.3})
    for i, S in enumerate(A.s3(5)):
        if i % (150 if q else 40) == 0:
            out.append({"cls": "ConvexPolyhedron", "pts": S})
            out.append({"cls": "Polyhedron", "pts": S})
    for i in range(len(A.vox((2, 2, 2)))):
        if i % (12 if q else 3) == 0:
            out.append({"cls": "Polyhedron", "vox": i})
    for n in (3, 4, 5):
        for i, c in enumerate(A.p2_thin(n, 4)):
            if i % ((60 if n == 3 else 300 if n == 4 else 1500) if q else (15 if n == 3 else 80 if n == 4 else 400)) == 0:
                out.append({"cls": "Polygon", "poly": [list(p) for p in c]})
    for i, c in enumerate(A.cp2(5, 4)):
        if i % (150 if q else 40) == 0:
            out.append({"cls": "ConvexPolygon", "poly": [list(p) for p in c]})
            out.append({"cls": "ConvexSpheropolygon", "poly": [list(p) for p in c], "r": 0.25})
    # a general Polyhedron with NON-CONVEX faces (L-shaped caps given as single faces): centroid and is_inside are
    # defined for it; relabelled by every cyclic shift of the cap lists (a reflex corner comes first for some)
    out.append({"cls": "Polyhedron", "lprism": True, "pts": []})
    out += [{"cls": "Sphere", "axes": [0.3]}, {"cls": "Ellipsoid", "axes": [1.0, 2.0, 7.5]}, {"cls": "Circle", "axes": [2.0]}, {"cls": "Ellipse", "axes": [2.0, 0.3]}]
    return out


def cases(tier):
    out = []
    q = tier == "quick"
    pls = A.placements_all()
    pls = [p for p in pls if p != A.placement()]
    for bi, b in enumerate(base_shapes(tier)):
        n = 12 if q else 40
        step = max(1, len(pls) // n)
        chosen = [pls[(bi * 7 + k * step) % len(pls)] for k in range(n)]
        # make sure every scale and an axis-aligned -> generic rotation occur for every base
        chosen += [A.placement("q1234", "s1", "t0"), A.placement("I", "s1e-3", "t0"), A.placement("I", "s1e3", "t3-25"), A.placement("L9", "s2^-10", "t10u")]
        seen = set()
        for pl in chosen:
            key = tuple(sorted(pl.items()))
            if key in seen:
                continue
            seen.add(key)
            if "axes" in b and pl["rot"] != "I":
                continue  # curved shapes are axis-aligned by construction: only scale and shift act
            out.append({"base": b, "g": {"pl": pl}})
        if b.get("lprism"):
            for k in range(1, 6):
                out.append({"base": b, "g": {"relabel": "shiftk", "k": k}})
            continue
        if "pts" in b or "vox" in b or "poly" in b:
            for rl in (["perm"] if b["cls"].startswith("Convex") else ["shift", "relabel", "frev"] if b["cls"] == "Polyhedron" else ["shift"]):
                out.append({"base": b, "g": {"relabel": rl}})
            if b["cls"] in ("ConvexPolygon", "ConvexSpheropolygon", "ConvexPolyhedron", "ConvexSpheropolyhedron"):
                # "permuting the input vertices of a convex shape": every order for <= 5 vertices (includes the
                # star orders of a pentagon), a generator closure otherwise
                k = len(b["poly"]) if "poly" in b else len(b["pts"])
                for o in A.all_orders(k)[1:]:
                    out.append({"base": b, "g": {"relabel": "order", "order": list(o)}})
    return out


def build(b, pl, relabel=None, order=None):
    """-> (object, float vertices or None).  Built from lattice data through the placement."""
    from coxeter import shapes as S

    cls = b["cls"]
    if "axes" in b:
        s = A.SCALES[pl["scale"]]
        ax = [a * s for a in b["axes"]]
        t = np.array(A.SHIFTS[pl["shift"]]) * 2 * max(b["axes"]) * s
        return getattr(S, cls)(*ax, t), None
    if "poly" in b:
        poly = [tuple(p) for p in b["poly"]]
        if relabel == "shift":
            poly = poly[2:] + poly[:2]
        F = A.apply_placement(pl, np.array([[x, y, 0.0] for x, y in poly]))
        R = np.array(A.rot_matrix(pl["rot"]))
        o = 1.0 if X.shoelace2(poly) > 0 else -1.0
        nrm = R @ np.array([0.0, 0.0, o])
        if relabel == "perm":
            F = F[[1, 0] + list(range(2, len(F)))]
        if relabel == "order":
            # keep the normal defined by the original cycle: it is passed explicitly below
            F = F[list(order)]
        if cls == "Polygon":
            return S.Polygon(F.copy(), normal=nrm), F
        if cls == "ConvexPolygon":
            return S.ConvexPolygon(F.copy(), normal=nrm), F
        s = A.SCALES[pl["scale"]]
        return S.ConvexSpheropolygon(F.copy(), b["r"] * s, normal=nrm), F
    if b.get("lprism"):
        L2 = [(0, 0), (3, 0), (3, 1), (1, 1), (1, 2), (0, 2)]
        P = [(x, y, 0) for x, y in L2] + [(x, y, 2) for x, y in L2]
        kk = order if relabel == "shiftk" else 0
        top, bot = [6 + i for i in range(6)], list(range(6))[::-1]
        faces = [bot[kk:] + bot[:kk], top[kk:] + top[:kk]] + [[i, (i + 1) % 6, 6 + (i + 1) % 6, 6 + i] for i in range(6)]
        F = A.apply_placement(pl, np.array(P, float))
        return S.Polyhedron(F.copy(), [np.array(f) for f in faces]), F
    if "vox" in b:
        v = A.vox((2, 2, 2))[b["vox"]]
        P, faces = [tuple(p) for p in v["verts"]], [list(f) for f in v["faces"]]
    else:
        P = [tuple(p) for p in b["pts"]]
        faces = [list(ext) for _, _, _, ext in X.hull_facets(P)]
    k = len(P)
    if relabel == "order":
        P = [P[i] for i in order]
        faces = None
    if relabel in ("perm", "relabel"):
        perm = [(i + 1) % k for i in range(k)]  # old index i -> new index perm[i]
        newP = [None] * k
        for i in range(k):
            newP[perm[i]] = P[i]
        P = newP
        faces = [[perm[i] for i in f] for f in faces]
    if relabel == "shift":
        faces = [f[1:] + f[:1] for f in faces]
    if relabel == "frev":
        faces = faces[::-1]
    F = A.apply_placement(pl, np.array(P, float))
    s = A.SCALES[pl["scale"]]
    if cls == "ConvexPolyhedron":
        return S.ConvexPolyhedron(F.copy()), F
    if cls == "ConvexSpheropolyhedron":
        return S.ConvexSpheropolyhedron(F.copy(), b["r"] * s), F
    return S.Polyhedron(F.copy(), [np.array(f) for f in faces], faces_are_convex=True), F


def law(name, val, g, ctx):
    """Expected value of observable `name` on g.x given its value on x."""
    s, R, t = g
    if name in INVARIANT:
        return val
    if name in DIM or name.endswith("_radius"):
        k = DIM.get(name, 1)
        if isinstance(val, dict):
            return {kk: np.asarray(v, float) * s**k for kk, v in val.items()}
        return np.asarray(val, float) * s**k
    if name in POINT:
        return s * (R @ np.asarray(val, float)) + t
    if isinstance(val, dict) and "class" in val and "centre" in val:  # a Sphere / Circle
        out = dict(val)
        for kk in ("radius", "a", "b", "c"):
            if kk in out:
                out[kk] = out[kk] * s
        out["centre"] = s * (R @ np.asarray(val["centre"], float)) + t
        return out
    if name in ("normals",):
        return {kk: R @ np.asarray(v, float) for kk, v in val.items()}
    if name == "normal":
        return R @ np.asarray(val, float)
    if name == "equations":
        out = {}
        for kk, v in val.items():
            n = R @ np.asarray(v[:3], float)
            out[kk] = np.concatenate([n, [s * v[3] - n @ t]])
        return out
    if name == "edge_vectors":
        return {kk: s * (R @ np.asarray(v, float)) for kk, v in val.items()}
    if name == "face_centroids":
        return {kk: s * (R @ np.asarray(v, float)) + t for kk, v in val.items()}
    if name == "simplices":
        return {"signed_volume": val["signed_volume"] * s**3, "area": val["area"] * s**2, "n": val["n"], "in_one_face": val["in_one_face"]}
    if name == "inertia_tensor":
        m, c, k = ctx["mass"], ctx["centroid"], ctx["k"]
        if m is None:
            return None
        I = np.asarray(val, float)

        def pa(mass, cc):
            return mass * ((cc @ cc) * np.eye(3) - np.outer(cc, cc))

        c2 = s * (R @ c) + t
        return s**k * (R @ (I - pa(m, c)) @ R.T) + pa(m * s ** (k - 2), c2)
    if name == "form_factor(q)":
        q2 = ctx["q2"]
        if ctx["dim"] == 2 and ctx.get("normal2") is not None:
            n2 = ctx["normal2"]
            q2 = q2 - np.outer(q2 @ n2, n2)  # a polygon's transform only sees the in-plane part of q
        return np.asarray(val, complex) * s ** ctx["dim"] * np.exp(-1j * (q2 @ t))
    if name == "distance_to_surface":
        return np.asarray(val, float) * s if ctx["R_is_identity"] else None
    if name == "polar_moment_inertia" and ctx.get("normal1") is not None and ctx["mass"] is not None:
        # polar moment about the axis through the origin along the normal
        m, c, n1 = ctx["mass"], ctx["centroid"], ctx["normal1"]
        d2 = c @ c - (n1 @ c) ** 2
        c2 = s * (R @ c) + t
        n2 = R @ n1
        return s**4 * (float(val) - m * d2) + m * s * s * (c2 @ c2 - (n2 @ c2) ** 2)
    if name in ("polar_moment_inertia", "planar_moments_inertia"):
        return np.asarray(val, float) * s**4 if (ctx["R_is_identity"] and not np.any(t)) else None
    return None


def run_case(case):
    rep = Report()
    b = case["base"]
    g = case["g"]
    cls = b["cls"]
    with warnings.catch_warnings():
        warnings.simplefilter("ignore")
        ident = A.placement()
        try:
            x, Fx = build(b, ident)
        except Exception as ex:
            rep.skip("base-does-not-construct:" + type(ex).__name__)
            return rep
        relabel = g.get("relabel")
        pl = g.get("pl", ident)
        try:
            y, Fy = build(b, pl, relabel, g.get("order") if relabel != "shiftk" else g.get("k"))
        except Exception as ex:
            rep.violation("covariance", cls, "__init__", "valid-shape-became-error:" + type(ex).__name__, case, "the base shape constructs, but its image under %s raises %r" % (g, ex))
            return rep
        rep.states += 1
        rep.traces += 1
        rep.nontrivial += 1
        s = A.SCALES[pl["scale"]]
        R = np.array(A.rot_matrix(pl["rot"]))
        if Fx is not None:
            L0 = float(np.max(np.linalg.norm(Fx[:, None] - Fx[None], axis=-1)))
        else:
            L0 = 2 * max(b["axes"])
        t = np.array(A.SHIFTS[pl["shift"]]) * L0 * s
        # probes and wave vectors on x, transformed ones on g.x
        if Fx is not None:
            px = e1.margin_filter(x, e1.probes_for(x))
        else:
            cen = np.asarray(x.centroid, float)
            pts = cen + np.array([[0, 0, 0], [0.013, 0.021, 0.0], [0.37, -0.011, 0.0], [50, 0, 0], [-0.031, 0.017, 0.0], [0.0, 0.0, 0.2]]) * L0
            px = {"points": pts, "q": np.array([[0.0, 0, 0], [1.0, 0, 0], [0, 0.7, 0], [0.3, -0.2, 0.9], [-1.1, 0.4, 0.2], [2.0, 2, -1]]) * (3.0 / L0), "angles": np.linspace(-7.0, 7.0, 29) if hasattr(x, "distance_to_surface") else None}
        py = {"points": s * (px["points"] @ R.T) + t, "q": (px["q"] @ R.T) / s, "angles": px.get("angles")}
        ox = e1.observe(x, px)
        oy = e1.observe(y, py)
        three = hasattr(type(x), "volume") or not hasattr(type(x), "area")
        ctx = {"dim": 3 if hasattr(type(x), "volume") else 2, "k": 5 if hasattr(type(x), "volume") else 4, "q2": py["q"], "R_is_identity": pl["rot"] == "I", "mass": None, "centroid": None}
        try:
            ctx["mass"] = float(x.volume if hasattr(type(x), "volume") else x.area)
            ctx["centroid"] = np.asarray(x.centroid, float)
        except Exception:
            pass
        ctx["normal2"] = np.asarray(y.normal, float) if hasattr(y, "normal") else None
        ctx["normal1"] = np.asarray(x.normal, float) if cls in ("Polygon", "ConvexPolygon") else None
        if pl["rot"] != "I":
            ox.pop("distance_to_surface", None)  # defined for shapes lying in the xy-plane only (C14)
            oy.pop("distance_to_surface", None)
        if cls in ("Circle", "Ellipse"):
            ox.pop("inertia_tensor", None)  # only its zz component is pinned (C10)
            oy.pop("inertia_tensor", None)
        Ly = L0 * s
        Dy = Ly + float(np.linalg.norm(t))
        names = sorted(set(ox) | set(oy))
        for name in names:
            if name not in ox or name not in oy:
                continue
            if relabel and name not in LABEL_FREE:
                continue
            (kx, vx), (ky, vy) = ox[name], oy[name]
            rep.transitions += 1
            if kx == "exc" and ky == "exc":
                if vx == vy:
                    rep.ok("both-raise")
                else:
                    rep.violation("covariance", cls, name, "different-exception", case, "%s raises %s on x but %s on g.x" % (name, vx, vy))
                continue
            if kx != ky:
                rep.violation("covariance", cls, name, "valid-became-error" if ky == "exc" else "error-became-valid", case, "%s: %s on x but %s on g.x (g=%s)" % (name, (kx, vx if kx == "exc" else "value"), (ky, vy if ky == "exc" else "value"), g))
                continue
            want = law(name, vx, (s, R, t), ctx) if not relabel else (vx if name != "form_factor(q)" else vx)
            if want is None:
                rep.skip("no-law:" + name)
                continue
            rtol, floor = 1e-8, 0.0
            if name in POINT or name == "face_centroids" or (isinstance(want, dict) and "centre" in want):
                floor = 1e-9 * Dy
                if "bounding" in name or "circum" in name or name in ("insphere", "incircle"):
                    rtol, floor = 1e-6, 1e-6 * Dy
            elif name.endswith("_radius") and ("bounding" in name or "circum" in name or name.startswith("in")):
                rtol = 1e-6
            elif name in ("normals", "normal"):
                rtol, floor = 0.0, 1e-8
            elif name == "equations":
                rtol, floor = 0.0, 1e-8 * max(Dy, 1.0)
            elif name == "get_dihedral(all)":
                rtol, floor = 0.0, 2e-6
            elif name == "inertia_tensor":
                floor = 1e-9 * Ly ** (ctx["k"] - 2) * Dy * Dy
            elif name == "polar_moment_inertia":
                floor = 1e-9 * Ly * Ly * Dy * Dy
            elif name == "edge_vectors":
                floor = 1e-9 * Dy
            elif name == "form_factor(q)":
                floor = 1e-7 * abs(ctx["mass"] or 1.0) * s ** ctx["dim"]
                rtol = 0.0
            elif name == "distance_to_surface":
                rtol = 1e-7
            ok, detail = e1._cmp(vy, want, rtol, floor)
            if ok:
                rep.ok("covariant")
            else:
                rep.violation("covariance", cls, name, "not-covariant", case, "%s on g.x differs from the law applied to x (g=%s): %s" % (name, g, detail))
        rep.sample({"case": case, "observables": len(names)})
    return rep
