"""C05 - 3-D point containment equals exact membership; batches agree with single calls."""
import itertools
import math
from fractions import Fraction as Fr

import numpy as np

from .. import alphabet as A
from .. import exact as X
from .. import families_alpha as FA
from ..common import Report
from ..refs import dist_points_to_triangles, fan_triangles

PROPERTY = "C05"
ENGINE = "E2"
TECHNIQUE = "bounded-exhaustive enumeration of shapes x placements x complete half-integer query lattices with exact membership oracles; exhaustive ordered batches"
LEVEL_TEXT = "Each point of a complete query lattice (plus feature-offset points) is decided by an exact oracle (plane signs, voxel occupancy, crossing number, distance to the core, rational quadratic form); batch/single/ordered-batch calls are enumerated completely for the early-exit paths."
RULE = (
    "cases = 3-D shape (ConvexPolyhedron / Polyhedron copy over S3 lattice hulls, Polyhedron over VOX voxel solids and EXT "
    "extrusions, ConvexSpheropolyhedron over S3 with r/L in {0,.05,.5,3}, Sphere, Ellipsoid over CURV axes x centres) x "
    "placement x query alphabet (half-integer lattice of the enlarged bounding box - sharing coordinates with vertices -, "
    "points offset by +-{1e-5,1e-3,0.3} from face centroids, edge midpoints and vertices); every point is decided by an exact "
    "rational oracle in the lattice frame (plane signs / voxel occupancy / polygon crossing number x height / squared distance "
    "to the core / quadratic form); points whose exact distance to the boundary is < 1e-6 L are skipped.  One batch call over "
    "all points, single (3,) calls, (1,3) calls, reversed and sub-batches must agree element-wise; for spheropolyhedra every "
    "ordered batch of length <=3 over six point classes is executed.  Also: placements at sizes 1e-6/1e6/1e-9 and ~2e7 diameters from the origin; whole-number points as int64 arrays / nested lists of Python ints must be answered like the same floats.  non-trivial = point outside the core or not at the "
    "centre, counted per distinct (shape, placement, point)."
)
ASSUMPTIONS = ["'uniform in an enlarged bounding box' replaced by the complete half-integer lattice plus feature-offset points", "batch sizes up to 2000 (the full query set padded by repetition)"]
BOUNDS = {
    "quick": {"convex": "S3(4) every 3rd + S3(5) every 10th, 2 placements", "vox": "2x2x2 all, 3x3x1 every 2nd; 2 placements", "ext": "every 8th P2(4,4) ccw", "sphero": "S3(4) every 24th x 4 radii", "curved": "all 81 sphere/ellipsoid axis triples from a 9-value subset x 2 centres"},
    "thorough": {"convex": "S3(<=5) all x 4 placements", "vox": "all three boxes x 4 placements", "ext": "all P2(4,4), every 4th P2(5,4)", "sphero": "S3(4) every 4th, S3(5) every 40th x 4 radii", "curved": "729 triples x 4 centres"},
}
CHUNK = 4
MARGIN = 1e-6
OFFS = [Fr(1, 100000), Fr(1, 1000), Fr(3, 10)]


WEDGES = [
    [[-10, -2, 0], [10, -2, 0], [10, 2, 0], [-10, 2, 0], [-3, 0, 10], [3, 0, 10]],  # roof, ridge shorter than the base
    [[-6, -1, 0], [6, -1, 0], [6, 1, 0], [-6, 1, 0], [-1, 0, 12], [1, 0, 12]],  # steep roof, very short ridge
    [[0, 0, 0], [12, 0, 0], [12, 3, 0], [0, 3, 0], [4, 1, 5], [7, 2, 5]],  # skew ridge, off-origin
]


def cases(tier):
    out = []
    pq = A.placements_quick()
    q = tier == "quick"
    s4, s5 = A.s3(4), A.s3(5)
    for i, S in enumerate(s4):
        if q and i % 3:
            continue
        for j in range(2 if q else 4):
            out.append({"kind": "convex", "pts": S, "pl": pq[(i + 3 * j) % 8], "cls": "ConvexPolyhedron" if (i + j) % 2 == 0 else "Polyhedron"})
    for i, S in enumerate(s5):
        if q and i % 10:
            continue
        for j in range(2 if q else 4):
            out.append({"kind": "convex", "pts": S, "pl": pq[(i + 3 * j + 1) % 8], "cls": "ConvexPolyhedron" if (i + j) % 2 else "Polyhedron"})
    # "far from the origin": ~2e7 diameters away (membership of the margin-filtered points stays well conditioned)
    far = [A.placement("L5", "s1", "tfar"), A.placement("q1234", "s1", "tfar"), A.placement("I", "s2^-10", "tfar")]
    for i, S in enumerate(s4):
        if i % (9 if q else 3) == 0:
            out.append({"kind": "convex", "pts": S, "pl": far[(i // 3) % 3], "cls": "ConvexPolyhedron" if (i // 9) % 2 == 0 else "Polyhedron"})
    for i, S in enumerate(s4):
        if i % (72 if q else 12) == 0:
            for r in ("1/20", "1/2"):
                out.append({"kind": "sphero", "pts": S, "r": r, "pl": far[(i // 12) % 3]})
    for i in range(0, len(A.vox((2, 2, 2))), 7 if q else 2):
        out.append({"kind": "vox", "box": [2, 2, 2], "i": i, "pl": far[i % 3]})
    boxes = [(2, 2, 2), (3, 3, 1)] + ([] if q else [(3, 2, 2)])
    for box in boxes:
        for i in range(len(A.vox(box))):
            if q and box == (3, 3, 1) and i % 2:
                continue
            if not q and box == (3, 2, 2) and i % 3:
                continue
            for j in range(2 if q else 4):
                out.append({"kind": "vox", "box": list(box), "i": i, "pl": pq[(i + 5 * j) % 8]})
    polys = [c for c in A.p2_thin(4, 4) if X.shoelace2(c) > 0]
    for i, c in enumerate(polys):
        if q and i % 8:
            continue
        out.append({"kind": "ext", "poly": [list(p) for p in c], "h": 1 + 2 * (i % 2), "pl": pq[i % 8]})
    if not q:
        polys = [c for c in A.p2_thin(5, 4) if X.shoelace2(c) > 0]
        for i, c in enumerate(polys):
            if i % 4 == 0:
                out.append({"kind": "ext", "poly": [list(p) for p in c], "h": 1 + 2 * (i % 2), "pl": pq[i % 8]})
    radii = ["0", "1/20", "1/2", "3"]
    for i, S in enumerate(s4):
        if i % (24 if q else 4):
            continue
        for r in radii:
            out.append({"kind": "sphero", "pts": S, "r": r, "pl": pq[(i // 4 + radii.index(r)) % 8]})
        tp = A.placements_tiny()
        for j, r in enumerate(radii[1:]):
            out.append({"kind": "sphero", "pts": S, "r": r, "pl": tp[(i // 24 + j) % len(tp)]})
        out.append({"kind": "convex", "pts": S, "pl": tp[(i // 24) % len(tp)], "cls": "Polyhedron"})
    # wedge / roof cores: a short sharp ridge between blunt slanted end faces (wave-7 seed W7_C05b)
    for k, W in enumerate(WEDGES):
        for j, r in enumerate(("1/20", "1/4", "1/2")):
            if q and (k + j) % 2:
                continue
            out.append({"kind": "sphero", "pts": W, "r": r, "pl": pq[(3 * k + j) % 8]})
            if not q:
                out.append({"kind": "sphero", "pts": W, "r": r, "pl": pq[(3 * k + j + 4) % 8]})
    if not q:
        for i, S in enumerate(s5):
            if i % 40 == 0:
                for r in radii:
                    out.append({"kind": "sphero", "pts": S, "r": r, "pl": pq[(i + radii.index(r)) % 8]})
    axes = A.AXES
    cents = [0, 1, 2, 3]
    for ia, a in enumerate(axes):
        out.append({"kind": "sphere", "r": a, "centre": cents[ia % 4]})
        out.append({"kind": "sphere", "r": a, "centre": cents[(ia + 1) % 4]})
    for ia, a in enumerate(axes):
        for ib, b in enumerate(axes):
            for ic, c in enumerate(axes):
                if q and (ia + 2 * ib + 3 * ic) % 9:
                    continue
                for k in range(2 if q else 4):
                    out.append({"kind": "ellipsoid", "abc": [a, b, c], "centre": cents[(ia + ib + ic + k) % 4]})
    return out


# ---------------------------------------------------------------------------
# query alphabets (lattice frame, exact rationals)


def lattice_queries(lo, hi):
    pts = []
    rng = [[Fr(k, 2) for k in range(2 * (lo[m] - 1), 2 * (hi[m] + 1) + 1)] for m in range(3)]
    for x in rng[0]:
        for y in rng[1]:
            for z in rng[2]:
                pts.append((x, y, z))
    return pts


def feature_queries(P, faces):
    """Points displaced from face centroids, edge midpoints and vertices along the ray from
    the vertex mean, by +-OFFS of that ray's length."""
    k = len(P)
    c = tuple(Fr(sum(p[m] for p in P), k) for m in range(3))
    feats = []
    for f in faces:
        feats.append(tuple(Fr(sum(P[i][m] for i in f), len(f)) for m in range(3)))
    for a, b in X.mesh_edges(faces):
        feats.append(tuple(Fr(P[a][m] + P[b][m], 2) for m in range(3)))
    for p in P:
        feats.append(tuple(Fr(x) for x in p))
    out = []
    for f in feats:
        u = X.sub(f, c)
        if all(x == 0 for x in u):
            continue
        for d in OFFS:
            out.append(tuple(f[m] + d * u[m] for m in range(3)))
            out.append(tuple(f[m] - d * u[m] for m in range(3)))
    return out


# ---------------------------------------------------------------------------
# oracles: (inside?, exact distance to boundary in lattice units as float)


def dist_to_mesh(P, faces, normals, x):
    best = None
    for f, nr in zip(faces, normals):
        d2 = X.dist2_point_convex_polygon(x, [P[i] for i in f], nr)
        if best is None or d2 < best:
            best = d2
    return math.sqrt(float(best))


def face_normals(P, faces):
    return [X.vector_area2(P, f) for f in faces]


def build(case):
    """-> dict(obj, queries (lattice frame), to_world(np array), oracle(x)->(inside, dist), L_lattice, label)"""
    from coxeter import shapes as S

    kind = case["kind"]
    if kind in ("convex", "sphero", "vox", "ext"):
        if kind in ("convex", "sphero"):
            P = [tuple(p) for p in case["pts"]]
            facets = X.hull_facets(P)
            faces = [list(ext) for _, _, _, ext in facets]
        elif kind == "vox":
            v = A.vox(tuple(case["box"]))[case["i"]]
            P = [tuple(p) for p in v["verts"]]
            faces = [list(f) for f in v["faces"]]
            cells = set(v["cells"])
        else:
            from .c02 import build_mesh

            m = build_mesh({"fam": "ext", "poly": case["poly"], "h": case["h"]})
            if m is None:
                return None
            P, faces, _ = m
        normals = face_normals(P, faces)
        base = np.array([[float(x) for x in p] for p in P])
        Llat = float(np.max(np.linalg.norm(base[:, None] - base[None], axis=-1)))
        pl = case["pl"]
        F = A.apply_placement(pl, base)
        R = np.array(A.rot_matrix(pl["rot"]))
        s = A.SCALES[pl["scale"]]
        t = np.array(A.SHIFTS[pl["shift"]]) * Llat * s

        def to_world(Q):
            return (np.array([[float(x) for x in p] for p in Q]) @ R.T) * s + t

        lo = [min(p[m] for p in P) for m in range(3)]
        hi = [max(p[m] for p in P) for m in range(3)]
        Q = lattice_queries(lo, hi) + feature_queries(P, faces)
        if kind == "convex":
            if case["cls"] == "ConvexPolyhedron":
                obj = S.ConvexPolyhedron(F.copy())
            else:
                obj = S.Polyhedron(F.copy(), [list(f) for f in faces], faces_are_convex=True)

            def oracle(x):
                return all(X.dot(nr, x) - d <= 0 for nr, d, _, _ in facets)

            label = case["cls"]
        elif kind == "sphero":
            r = Fr(case["r"]) * Fr(int(round(Llat * 1000)), 1000)  # radius as a rational multiple of ~L
            obj = S.ConvexSpheropolyhedron(F.copy(), float(r) * s)
            rf = float(r)

            oracle = None  # decided from the distance to the core (float, far outside the skipped margin)

            label = "ConvexSpheropolyhedron"
            # add points around the rounded surface: feature points pushed out by r(1 +- off)
            k = len(P)
            c = tuple(Fr(sum(p[m] for p in P), k) for m in range(3))
            extra = []
            if r > 0:
                for f in [tuple(Fr(x) for x in p) for p in P] + [tuple(Fr(sum(P[i][m] for i in fc), len(fc)) for m in range(3)) for fc in faces] + [tuple(Fr(P[a][m] + P[b][m], 2) for m in range(3)) for a, b in X.mesh_edges(faces)]:
                    u = X.sub(f, c)
                    un = math.sqrt(float(X.dot(u, u)))
                    if un == 0:
                        continue
                    for fac in (Fr(1, 2), Fr(9, 10), Fr(999, 1000), Fr(1001, 1000), Fr(11, 10), Fr(2)):
                        lam = Fr(float(r) * float(fac) / un).limit_denominator(10**9)
                        extra.append(tuple(f[m] + lam * u[m] for m in range(3)))
            # edge-hover points (wave-7 seed W7_C05b: only the face with the largest plane distance was examined,
            # so a point over a short sharp ridge next to a blunt end face was missed): along every edge at
            # t in {1/8, 1/2, 7/8}, lifted along either adjacent facet normal and their sum by r x {1/2, 9/10, 11/10}
            if r > 0:
                fn = {}
                for nr, _, _, ext in facets:
                    ln = math.sqrt(float(X.dot(nr, nr)))
                    for a_ in ext:
                        fn.setdefault(a_, []).append(tuple(float(x) / ln for x in nr))
                fof = [(set(ext), tuple(float(x) / math.sqrt(float(X.dot(nr, nr))) for x in nr)) for nr, _, _, ext in facets]
                for a_, b_ in X.mesh_edges(faces):
                    adj = [n for ext, n in fof if a_ in ext and b_ in ext]
                    if len(adj) != 2:
                        continue
                    sm = tuple(adj[0][m] + adj[1][m] for m in range(3))
                    sl = math.sqrt(sum(x * x for x in sm))
                    dirs = list(adj) + ([tuple(x / sl for x in sm)] if sl > 1e-9 else [])
                    for t_ in (Fr(1, 8), Fr(1, 2), Fr(7, 8)):
                        base_pt = tuple(Fr(P[a_][m]) + t_ * (Fr(P[b_][m]) - Fr(P[a_][m])) for m in range(3))
                        for dv in dirs:
                            for fac in (0.5, 0.9, 1.1):
                                extra.append(tuple(base_pt[m] + Fr(float(r) * fac * dv[m]).limit_denominator(10**9) for m in range(3)))
            Q = Q + extra
        elif kind == "vox":
            obj = S.Polyhedron(F.copy(), [list(f) for f in faces], faces_are_convex=True)

            def oracle(x):
                touched = [[]]
                for m in range(3):
                    fl = x[m].numerator // x[m].denominator
                    opts = [fl - 1, fl] if x[m] == fl else [fl]
                    touched = [t + [o] for t in touched for o in opts]
                fill = [tuple(t) in cells for t in touched]
                return all(fill)

            label = "Polyhedron(vox)"
        else:
            obj = S.Polyhedron(F.copy(), [list(f) for f in faces], faces_are_convex=True)
            poly2 = [tuple(p) for p in case["poly"]]
            h = case["h"]

            def oracle(x):
                w = X.point_in_polygon_exact(poly2, (x[0], x[1]))
                return (w == "in") and (0 < x[2] < h)

            label = "Polyhedron(ext)"
        return {"obj": obj, "Q": Q, "to_world": to_world, "oracle": oracle, "L": Llat, "label": label, "base": base, "faces": faces, "facets": facets if kind in ("convex", "sphero") else None, "r": (rf if kind == "sphero" else None)}
    # curved shapes: the oracle works on the very floats passed to is_inside
    if kind == "sphere":
        r = case["r"]
        c = A.curv_centres(2 * r)[case["centre"]]
        obj = S.Sphere(r, c)
        axes = (r, r, r)
        label = "Sphere"
    else:
        a, b, cc = case["abc"]
        c = A.curv_centres(2 * max(a, b, cc))[case["centre"]]
        obj = S.Ellipsoid(a, b, cc, c)
        axes = (a, b, cc)
        label = "Ellipsoid"
    us = [k / 4.0 for k in range(-6, 7)]
    grid = [(x, y, z) for x in us for y in us for z in us]
    dirs = FA.primitive_directions()[:40]
    near = []
    for d in dirs:
        n = math.sqrt(sum(v * v for v in d))
        for f in (0.999, 0.99999, 1.00001, 1.001, 0.5, 1.5):
            near.append(tuple(v / n * f for v in d))
    U = np.array(grid + near)
    W = np.array(c, float) + U * np.array(axes, float)
    cF = [Fr(float(v)) for v in c]
    aF = [Fr(float(v)) for v in axes]

    def oracle_w(w):
        q = sum(((Fr(float(w[m])) - cF[m]) / aF[m]) ** 2 for m in range(3))
        return (q <= 1), abs(math.sqrt(float(q)) - 1.0)

    return {"obj": obj, "W": W, "oracle_w": oracle_w, "L": 1.0, "label": label}


def run_case(case):
    rep = Report()
    try:
        b = build(case)
    except Exception as ex:
        rep.violation("construct", case["kind"], "__init__", "raised:" + type(ex).__name__, case, "building the shape raised %r" % (ex,))
        return rep
    if b is None:
        rep.skip("ear-clipping-degenerate")
        return rep
    obj, label = b["obj"], b["label"]
    if "Q" in b:
        Q = b["Q"]
        W = b["to_world"](Q)
        Qf = np.array([[float(x) for x in p] for p in Q])
        dist = dist_points_to_triangles(Qf, fan_triangles(b["base"], b["faces"]))
        if b["oracle"] is not None:
            want = np.array([b["oracle"](x) for x in Q])
            bd = dist
        else:
            in_core = np.array([all(X.dot(nr, x) - d <= 0 for nr, d, _, _ in b["facets"]) for x in Q])
            dcore = np.where(in_core, 0.0, dist)
            want = dcore <= b["r"]
            bd = np.where(in_core, dist + b["r"], np.abs(dist - b["r"]))
        dec = [(bool(w), float(d)) for w, d in zip(want, bd)]
    else:
        W = b["W"]
        dec = [b["oracle_w"](w) for w in W]
    L = b["L"]
    want = np.array([d[0] for d in dec])
    clear = np.array([d[1] > 2 * MARGIN * L for d in dec])
    rep.states += 1
    rep.traces += 1
    rep.skip("within-margin-of-boundary", int((~clear).sum()))
    Win = W.copy()
    try:
        got = np.asarray(obj.is_inside(Win))
    except Exception as ex:
        rep.violation("membership", label, "is_inside", "raised:" + type(ex).__name__, case, "is_inside raised %r on a batch of %d points" % (ex, len(W)))
        return rep
    rep.transitions += len(W)
    if got.shape != (len(W),) or got.dtype != bool:
        rep.violation("membership", label, "is_inside", "bad-result-shape", case, "is_inside returned shape %s dtype %s for %d points" % (got.shape, got.dtype, len(W)))
        return rep
    if not np.array_equal(Win, W):
        rep.violation("membership", label, "is_inside", "argument-mutated", case, "is_inside modified the point array passed in")
    bad = np.where((got != want) & clear)[0]
    rep.ok("decided-points", int(clear.sum()) - len(bad))
    rep.nontrivial += int((clear & ~want).sum()) + int((clear & want).sum() > 0)
    for i in bad[:3]:
        c2 = dict(case)
        c2["_point_index"] = int(i)
        rep.violation("membership", label, "is_inside", "wrong-inside" if got[i] else "wrong-outside", case, "%s.is_inside(%s) = %s but the point is exactly %s (distance to boundary %.3g L); query #%d of %d" % (label, W[i].tolist(), bool(got[i]), "inside" if want[i] else "outside", dec[i][1] / L, i, len(W)), expected=bool(want[i]), got=bool(got[i]))
    if len(bad) > 3:
        rep.extra["more_wrong_points"] += len(bad) - 3
    # --- batch / single agreement (implementation against itself) ------------------------
    n = len(W)
    ci = np.where(clear)[0]
    if len(ci) == 0:
        return rep
    pick = sorted(set([int(ci[0]), int(ci[len(ci) // 7]), int(ci[len(ci) // 3]), int(ci[len(ci) // 2]), int(ci[(2 * len(ci)) // 3]), int(ci[-1])] + [int(i) for i in np.where(want & clear)[0][:3]] + [int(i) for i in np.where(~want & clear)[0][:3]]))

    def call(arr):
        return np.asarray(obj.is_inside(arr))

    def agree(name, fn, expect, mask=None):
        rep.transitions += 1
        try:
            r = fn()
        except Exception as ex:
            rep.violation("batch", label, "is_inside", "raised:" + type(ex).__name__ + ":" + name, case, "%s raised %r" % (name, ex))
            return
        expect = np.asarray(expect)
        m = mask if (mask is not None) else np.ones(len(expect), bool)
        if r.shape == expect.shape and np.array_equal(r[m], expect[m]):
            rep.ok(name)
        else:
            rep.violation("batch", label, "is_inside", "batch-differs:" + name, case, "%s gives %s, the full batch gave %s at the same points" % (name, r.tolist()[:12], np.asarray(expect).tolist()[:12]))

    for i in pick:
        agree("single(3,)", lambda i=i: call(W[i].copy()), got[i : i + 1])
    for i in pick[:4]:
        agree("single(1,3)", lambda i=i: call(W[i : i + 1].copy()), got[i : i + 1])
    agree("reversed", lambda: call(W[::-1].copy()), got[::-1], clear[::-1])
    agree("sub-batch-7", lambda: call(W[pick[:7]].copy()), got[pick[:7]])
    reps = (2000 + n - 1) // n
    if n < 2000:
        big = np.vstack([W] * reps)[:2000]
        agree("batch-2000", lambda: call(big.copy()), np.concatenate([got] * reps)[:2000], np.concatenate([clear] * reps)[:2000])
    agree("python-list", lambda: call(W[pick[:5]].tolist()), got[pick[:5]])
    # input forms: whole-number points as integer arrays / nested lists of Python ints are answered like the same floats
    lo, hi = np.floor(W.min(0)).astype(np.int64), np.ceil(W.max(0)).astype(np.int64)
    if np.all(hi - lo <= 12) and np.all(np.abs(W) < 1e6):
        Wi = np.array([[x, y, z] for x in range(lo[0], hi[0] + 1) for y in range(lo[1], hi[1] + 1) for z in range(lo[2], hi[2] + 1)], dtype=np.int64)
        try:
            reff = call(Wi.astype(float))
            agree("int64-points", lambda: call(Wi.copy()), reff)
            agree("nested-list-of-int", lambda: call(Wi.tolist()), reff)
            agree("single-int-point", lambda: call(Wi[len(Wi) // 2].copy()), reff[len(Wi) // 2 : len(Wi) // 2 + 1])
        except Exception as ex:
            rep.violation("batch", label, "is_inside", "raised:" + type(ex).__name__ + ":int-points", case, "whole-number points raised %r" % (ex,))
    if label == "ConvexSpheropolyhedron":
        # six point classes: core, face slab, edge wedge, vertex cap, near outside, far outside
        classes = _sphero_classes(case, b, W, got, want, clear)
        idx = [i for i in classes if i is not None]
        for ln in (1, 2, 3):
            for combo in itertools.product(idx, repeat=ln):
                combo = list(combo)
                agree("ordered-batch-%d" % ln, lambda combo=combo: call(W[combo].copy()), got[combo])
    rep.sample({"case": case, "points": n, "inside": int(want.sum()), "skipped_near_boundary": int((~clear).sum())})
    return rep


def _sphero_classes(case, b, W, got, want, clear):
    """Pick one clear query point of each class using the exact oracle's distances."""
    P = [tuple(p) for p in case["pts"]]
    facets = X.hull_facets(P)
    Q = b["Q"]
    r = float(Fr(case["r"])) * b["L"]
    out = [None] * 6
    for i, x in enumerate(Q):
        if not clear[i]:
            continue
        d2 = float(X.dist2_point_convex_polyhedron(P, facets, x))
        d = math.sqrt(d2)
        nout = sum(1 for nr, dd, _, _ in facets if X.dot(nr, x) - dd > 0)
        if d2 == 0 and out[0] is None:
            out[0] = i
        elif 0 < d < r and nout == 1 and out[1] is None:
            out[1] = i
        elif 0 < d < r and nout == 2 and out[2] is None:
            out[2] = i
        elif 0 < d < r and nout >= 3 and out[3] is None:
            out[3] = i
        elif r < d < 1.5 * r + 0.2 and out[4] is None:
            out[4] = i
        elif d > 3 * r + 2 and out[5] is None:
            out[5] = i
    return out
