"""C07 - face / normal / neighbour / edge / simplex structure of polyhedra is consistent."""
import itertools
import math

import numpy as np

from .. import alphabet as A
from .. import exact as X
from ..common import Report

PROPERTY = "C07"
ENGINE = "E2"
TECHNIQUE = "bounded-exhaustive enumeration of hulls x vertex orders x face scrambles (permutation, reversal, relabelling, triangulation+winding) vs the exact hull structure"
RULE = (
    "cases = S3(k) lattice hull in convex position x vertex order x placement for ConvexPolyhedron; and Polyhedron inputs derived "
    "from every such hull by every combination of {per-face vertex permutation in (identity, reversal, cyclic shift, transposition, "
    "3-cycle)} x {face list reversed} x {vertices relabelled by a derangement} followed by sort_faces, and {fan-triangulated} "
    "followed by merge_faces.  Checked against the exact hull: faces are the facets (as vertex sets), each cycle counter-clockwise "
    "from outside (exact sign), equations unit/outward/contain the face/other vertices strictly inside, neighbours symmetric and "
    "<=> shared edge, edges unique i<j lexicographically sorted with V-E+F=2 and num_edges/edge_vectors/edge_lengths consistent, "
    "simplices triangulate the faces consistently outward, get_dihedral equals the angle of the exact integer normals.  "
    "Also: sort_faces from EVERY winding pattern (one bit per face) x 7 face-list orders on the octahedron, prisms n=5,6 and pyramids n=5,6 (thorough: up to n=8); merge_faces on prisms/pyramids n=5..8 with 5 triangle-list orders.  "
    "non-trivial = case with a scrambled input (order, permutation, relabelling, triangulation) or non-identity placement."
)
ASSUMPTIONS = ["'randomly permuting' of the quantifier text replaced by the complete product of a fixed finite set of scrambles"]
BOUNDS = {"quick": {"S3": "k<=5; convex: 3 orders x 1 placement each; polyhedron: all 40 scramble combinations on every 6th hull"}, "thorough": {"S3": "k<=6 (k=6 every 5th); all orders for k<=5 on every 4th hull; scrambles on every 2nd hull"}}
# merge variants additionally x triangle winding in {consistent, alternate, reversed, every-third-shifted}
PERMS = ["id", "rev", "shift", "swap01", "cyc3"]


def cases(tier):
    out = []
    pq = A.placements_quick()
    q = tier == "quick"
    kmax = 5 if q else 6
    for k in range(4, kmax + 1):
        sets = A.s3(k)
        for i, S in enumerate(sets):
            if k == 6 and i % 5:
                continue
            if q:
                orders = [None] + [list(o) for o in A.order_closure(k, 1)[1:3]]
            else:
                orders = [None] + ([list(o) for o in A.all_orders(k)[1:]] if (i % 4 == 0 and k <= 5) else [list(o) for o in A.order_closure(k, 2)[1:]])
            for j, o in enumerate(orders):
                out.append({"pts": S, "order": o, "pl": pq[(i + j) % 8], "variant": "convex"})
            if i % (6 if q else 2) == 0:
                j = 0
                for perm in PERMS:
                    for frev in (False, True):
                        for relabel in (False, True):
                            out.append({"pts": S, "order": None, "pl": pq[(i + j) % 8], "variant": "sort", "perm": perm, "frev": frev, "relabel": relabel})
                            j += 1
                for frev in (False, True):
                    for relabel in (False, True):
                        for wind in ("consistent", "alternate", "reversed", "every-third-shifted"):
                            out.append({"pts": S, "order": None, "pl": pq[(i + j) % 8], "variant": "merge", "frev": frev, "relabel": relabel, "wind": wind})
                            j += 1
    # solids with facets of 5..8 vertices (a facet is cut into >= 3 coplanar triangles), triangle list in several orders
    for n in (5, 6, 7, 8):
        for kind in ("prism", "pyramid"):
            for order in ("natural", "reversed", "stride3", "stride5", "interleave-halves"):
                for wind in ("consistent", "alternate"):
                    out.append({"solid": kind, "n": n, "order": None, "pl": pq[(n + len(order)) % 8], "variant": "merge", "frev": False, "relabel": False, "wind": wind, "tri_order": order, "pts": []})
    # sort_faces from arbitrarily wound faces in an arbitrary face-list order: EVERY winding pattern (one bit per face)
    # x a fixed set of face-list orders on solids whose dual graph is not complete (orientation has to be propagated
    # through faces that are not adjacent to face 0)
    solids = [("octahedron", 0), ("prism", 5), ("prism", 6), ("pyramid", 5), ("pyramid", 6)] + ([] if q else [("prism", 7), ("pyramid", 8), ("prism", 8)])
    for kind, n in solids:
        nf = len(solid_structure(kind, n)[1])
        for fo in FORDERS:
            for mask in range(2**nf):
                if q and nf > 7 and kind != "octahedron" and mask % 2:
                    continue
                out.append({"solid": kind, "n": n, "order": None, "pl": pq[(mask + nf) % 8], "variant": "sort", "mask": mask, "forder": fo, "pts": []})
    return out


FORDERS = ["natural", "reversed", "stride3", "interleave-halves", "last-first", "rot2", "evens-then-odds"]


def order_faces(fs, fo):
    m = len(fs)
    if fo == "natural":
        return list(fs)
    if fo == "reversed":
        return fs[::-1]
    if fo == "stride3":
        st = 3
        while __import__("math").gcd(st, m) != 1:
            st += 1
        return [fs[(i * st) % m] for i in range(m)]
    if fo == "interleave-halves":
        h = m // 2
        a_, b_ = fs[:h], fs[h:]
        return [x for pair in zip(b_, a_) for x in pair] + b_[len(a_):]
    if fo == "last-first":
        return fs[-1:] + fs[:-1]
    if fo == "rot2":
        return fs[2:] + fs[:2]
    if fo == "evens-then-odds":
        return fs[0::2] + fs[1::2]
    raise ValueError(fo)


def solid_structure(kind, n):
    """vertices (floats) and outward counter-clockwise faces of a right n-prism / n-pyramid, from the construction"""
    import math as _m

    ring = [(_m.cos(2 * _m.pi * i / n), _m.sin(2 * _m.pi * i / n)) for i in range(n)]
    if kind == "octahedron":
        P = [(1.0, 0.0, 0.0), (-1.0, 0.0, 0.0), (0.0, 1.0, 0.0), (0.0, -1.0, 0.0), (0.0, 0.0, 1.0), (0.0, 0.0, -1.0)]
        faces = [[0, 2, 4], [2, 1, 4], [1, 3, 4], [3, 0, 4], [2, 0, 5], [1, 2, 5], [3, 1, 5], [0, 3, 5]]
        return P, faces
    if kind == "prism":
        P = [(x, y, 0.7) for x, y in ring] + [(x, y, -0.7) for x, y in ring]
        faces = [list(range(n)), [n + i for i in range(n)][::-1]]
        for i in range(n):
            j = (i + 1) % n
            faces.append([i, n + i, n + j, j])
    else:
        P = [(x, y, 0.0) for x, y in ring] + [(0.0, 0.0, 1.3)]
        faces = [list(range(n))[::-1]]
        for i in range(n):
            faces.append([i, (i + 1) % n, n])
    return P, faces


def permute_face(f, perm, salt):
    f = list(f)
    n = len(f)
    if perm == "id":
        return f
    if perm == "rev":
        return f[::-1]
    if perm == "shift":
        k = 1 + salt % (n - 1)
        return f[k:] + f[:k]
    if perm == "swap01":
        return [f[1], f[0]] + f[2:]
    if perm == "cyc3":
        return [f[1], f[2], f[0]] + f[3:]
    raise ValueError(perm)


def cyc_canon(f):
    f = [int(x) for x in f]
    i = f.index(min(f))
    return tuple(f[i:] + f[:i])


def run_case(case):
    from coxeter.shapes import ConvexPolyhedron, Polyhedron

    rep = Report()
    if case.get("solid"):
        P, sfaces = solid_structure(case["solid"], case["n"])
    else:
        sfaces = None
        P = [tuple(p) for p in case["pts"]]
    if case["order"]:
        P = [P[i] for i in case["order"]]
    k = len(P)
    relabel = None
    if case.get("relabel"):
        relabel = [(i + 1) % k for i in range(k)]  # derangement: old index i -> new index relabel[i]
        newP = [None] * k
        for i in range(k):
            newP[relabel[i]] = P[i]
        P = newP
    if sfaces is not None:
        ex_faces = [list(f) for f in sfaces]
        ex_norm = {frozenset(f): X.vector_area2(P, f) for f in ex_faces}
    else:
        facets = X.hull_facets(P)
        ex_faces = [list(ext) for _, _, _, ext in facets]
        ex_norm = {frozenset(ext): nr for nr, _, _, ext in facets}
    base = np.array(P, float)
    pl = case["pl"]
    F = A.apply_placement(pl, base)
    R = np.array(A.rot_matrix(pl["rot"]))
    L = float(np.max(np.linalg.norm(F[:, None] - F[None], axis=-1)))
    D = L + float(np.linalg.norm(F.mean(0)))
    variant = case["variant"]
    label = "ConvexPolyhedron" if variant == "convex" else "Polyhedron." + ("sort_faces" if variant == "sort" else "merge_faces")
    rep.states += 1
    rep.traces += 1
    if variant != "convex" or case["order"] or pl != A.placement():
        rep.nontrivial += 1

    def bad(obs, mode, msg):
        rep.violation("structure", label, obs, mode, case, msg)

    try:
        if variant == "convex":
            obj = ConvexPolyhedron(F.copy())
        elif variant == "sort" and "mask" in case:
            # face i reversed iff bit i of the mask, every face also cyclically shifted, face list re-ordered
            fs = [permute_face(f[::-1] if (case["mask"] >> i) & 1 else f, "shift", i) for i, f in enumerate(ex_faces)]
            fs = order_faces(fs, case["forder"])
            obj = Polyhedron(F.copy(), [np.array(f) for f in fs], faces_are_convex=True)
            obj.sort_faces()
        elif variant == "sort":
            fs = [permute_face(f, case["perm"], i) for i, f in enumerate(ex_faces)]
            if case["frev"]:
                fs = fs[::-1]
            obj = Polyhedron(F.copy(), [np.array(f) for f in fs], faces_are_convex=True)
            obj.sort_faces()
        else:
            fs = [list(t) for f in ex_faces for t in X.tri_fan(f)]
            wind = case.get("wind", "consistent")
            if wind == "alternate":
                fs = [t[::-1] if i % 2 else t for i, t in enumerate(fs)]  # inconsistently wound triangles
            elif wind == "reversed":
                fs = [t[::-1] for t in fs]
            elif wind == "every-third-shifted":
                fs = [(t[1:] + t[:1])[::-1] if i % 3 == 0 else t[2:] + t[:2] for i, t in enumerate(fs)]
            if case["frev"]:
                fs = fs[::-1]
            to = case.get("tri_order")
            if to == "reversed":
                fs = fs[::-1]
            elif to in ("stride3", "stride5"):
                st = 3 if to == "stride3" else 5
                m = len(fs)
                while __import__("math").gcd(st, m) != 1:
                    st += 1
                fs = [fs[(i * st) % m] for i in range(m)]
            elif to == "interleave-halves":
                h = len(fs) // 2
                a_, b_ = fs[:h], fs[h:]
                fs = [x for pair in zip(b_, a_) for x in pair] + b_[len(a_):]
            obj = Polyhedron(F.copy(), [np.array(f) for f in fs])
            obj.merge_faces()
    except Exception as ex:
        bad("construct", "raised:" + type(ex).__name__, "%s raised %r" % (label, ex))
        return rep
    faces = [[int(x) for x in f] for f in obj.faces]
    # 1. faces are the facets, counter-clockwise from outside
    rep.transitions += 1
    got_sets = sorted(sorted(f) for f in faces)
    want_sets = sorted(sorted(f) for f in ex_faces)
    if got_sets != want_sets:
        bad("faces", "not-hull-facets", "faces (as vertex sets) %s != exact hull facets %s" % (got_sets, want_sets))
        return rep
    rep.ok("faces=facets")
    want_cyc = {frozenset(f): cyc_canon(f) for f in ex_faces}
    wrong = [f for f in faces if cyc_canon(f) != want_cyc[frozenset(f)]]
    rep.transitions += 1
    if wrong:
        rev = [f for f in wrong if cyc_canon(f[::-1]) == want_cyc[frozenset(f)]]
        bad("faces", "clockwise-from-outside" if len(rev) == len(wrong) else "not-a-boundary-cycle", "face cycles %s are not the counter-clockwise boundary cycles %s" % (wrong[:3], [want_cyc[frozenset(f)] for f in wrong[:3]]))
    else:
        rep.ok("faces-ccw")
    # 2. plane equations
    eqs = np.asarray(obj._equations if not hasattr(obj, "equations") else obj.equations, float)
    normals = np.asarray(obj.normals, float)
    rep.transitions += 1
    okeq = True
    for f, eq, nn in zip(faces, eqs, normals):
        nr = np.array([float(x) for x in ex_norm[frozenset(f)]])
        nw = R @ (nr / np.linalg.norm(nr))
        if np.max(np.abs(eq[:3] - nw)) > 1e-9 or np.max(np.abs(nn - nw)) > 1e-9:
            bad("equations", "normal-wrong", "face %s: normal %s, exact outward unit normal %s" % (f, eq[:3].tolist(), nw.tolist()))
            okeq = False
            break
        res = F[f] @ eq[:3] + eq[3]
        if np.max(np.abs(res)) > 1e-9 * D:
            bad("equations", "offset-wrong", "face %s: plane does not contain its vertices (residuals %s)" % (f, res.tolist()))
            okeq = False
            break
        others = [i for i in range(k) if i not in f]
        if others and np.max(F[others] @ eq[:3] + eq[3]) > -1e-9 * L:
            bad("equations", "not-supporting", "face %s: some other vertex is not strictly on the inner side" % (f,))
            okeq = False
            break
    if okeq:
        rep.ok("equations")
    # 3. neighbours
    rep.transitions += 1
    nb = [sorted(int(j) for j in a) for a in obj.neighbors]

    def edgeset(f):
        return {frozenset((f[i], f[(i + 1) % len(f)])) for i in range(len(f))}

    es = [edgeset(want_cyc[frozenset(f)]) for f in faces]
    want_nb = [sorted(j for j in range(len(faces)) if j != i and es[i] & es[j]) for i in range(len(faces))]
    if nb != want_nb:
        sym = all(i in nb[j] for i in range(len(nb)) for j in nb[i])
        bad("neighbors", "asymmetric" if not sym else "not-shared-edge-relation", "neighbors %s, expected %s" % (nb, want_nb))
    else:
        rep.ok("neighbors")
    # 4. edges
    rep.transitions += 1
    want_edges = sorted(X.mesh_edges(ex_faces))
    try:
        edges = [tuple(int(x) for x in e) for e in obj.edges]
        ne = int(obj.num_edges)
        ev = np.asarray(obj.edge_vectors, float)
        el = np.asarray(obj.edge_lengths, float)
    except Exception as ex:
        bad("edges", "raised:" + type(ex).__name__, repr(ex))
        edges = None
    if edges is not None:
        if edges != want_edges:
            bad("edges", "wrong-edge-list", "edges %s, expected %s" % (edges, want_edges))
        elif ne != len(want_edges) or k - ne + len(faces) != 2:
            bad("num_edges", "euler", "num_edges=%d, V=%d, F=%d, edge list has %d" % (ne, k, len(faces), len(want_edges)))
        else:
            wv = np.array([F[j] - F[i] for i, j in want_edges])
            if ev.shape != wv.shape or np.max(np.abs(ev - wv)) > 1e-12 * D or np.max(np.abs(el - np.linalg.norm(wv, axis=1))) > 1e-12 * D:
                bad("edge_vectors", "inconsistent", "edge_vectors/edge_lengths do not match vertices[j]-vertices[i]")
            else:
                rep.ok("edges")
    # 5. simplices (convex class)
    if variant == "convex":
        rep.transitions += 1
        try:
            simp = [[int(x) for x in s] for s in obj.simplices]
            okS = True
            tri_dir = set()
            for s in simp:
                home = [f for f in ex_faces if set(s) <= set(f)]
                if len(home) != 1 or len(set(s)) != 3:
                    bad("simplices", "not-in-one-face", "simplex %s is not inside exactly one facet" % (s,))
                    okS = False
                    break
                a, b, c = (P[i] for i in s)
                nrs = X.cross(X.sub(b, a), X.sub(c, a))
                if X.dot(nrs, ex_norm[frozenset(home[0])]) <= 0:
                    bad("simplices", "inward-or-degenerate", "simplex %s is not counter-clockwise from outside" % (s,))
                    okS = False
                    break
                for i in range(3):
                    tri_dir.add((s[i], s[(i + 1) % 3]))
            if okS:
                if not X.mesh_is_closed_oriented(simp):
                    bad("simplices", "not-closed", "simplices do not form a closed oriented surface")
                else:
                    # per-face area sums (exact, on the lattice): 2*area vectors add up
                    for f in ex_faces:
                        tot = X.vector_area2(P, f)
                        acc = (0, 0, 0)
                        for s in simp:
                            if set(s) <= set(f):
                                a, b, c = (P[i] for i in s)
                                acc = X.add(acc, X.cross(X.sub(b, a), X.sub(c, a)))
                        if tuple(acc) != tuple(tot):
                            bad("simplices", "do-not-cover-face", "simplices in face %s do not add up to the face" % (f,))
                            okS = False
                            break
                    if okS:
                        rep.ok("simplices")
        except Exception as ex:
            bad("simplices", "raised:" + type(ex).__name__, repr(ex))
    # 6. dihedral angles
    rep.transitions += 1
    okD = True
    for i in range(len(faces)):
        for j in want_nb[i]:
            if j < i:
                continue
            n1 = ex_norm[frozenset(faces[i])]
            n2 = ex_norm[frozenset(faces[j])]
            cr = X.cross(n1, n2)
            ang = math.pi - math.atan2(math.sqrt(float(X.dot(cr, cr))), float(X.dot(n1, n2)))
            try:
                got = float(obj.get_dihedral(i, j))
            except Exception as ex:
                bad("get_dihedral", "raised:" + type(ex).__name__, "get_dihedral(%d,%d) raised %r" % (i, j, ex))
                okD = False
                break
            if not abs(got - ang) <= 1e-6:
                bad("get_dihedral", "mismatch", "get_dihedral(%d,%d)=%r, exact %r" % (i, j, got, ang))
                okD = False
                break
        if not okD:
            break
    if okD:
        rep.ok("dihedrals")
    rep.sample({"case": case, "faces": len(faces), "edges": len(want_edges)})
    return rep
