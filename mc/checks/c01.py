"""C01 - convex polyhedron volume, areas, centroids and inertia tensor are exact and
independent of the vertex order.  Engine E2: bounded-exhaustive alphabets x placements
against exact integer-arithmetic integrals of the very floats passed in."""
import numpy as np

from .. import alphabet as A
from .. import exact as X
from .. import families_alpha as FA
from ..common import Report
from ..refs import ConvexRef, maxerr

PROPERTY = "C01"
ENGINE = "E2"
TECHNIQUE = "bounded-exhaustive input enumeration (lattice hull orbits x placement group x vertex orders) vs exact integer-arithmetic integrals"
LEVEL_TEXT = "Every convex lattice configuration up to the stated size, every tabulated solid and a deterministic ellipsoid family are executed in every listed placement and vertex order; each reported measure is decided against exact integrals of the same floats. Silence = no counterexample inside the enumerated space."
RULE = (
    "cases = (vertex set from S3(k) lattice orbits | FAM tabulated+generated solids | ELL points on ellipsoids) x placement "
    "(rotation, scale, shift) x vertex order x anisotropic stretch, enumerated completely; each case constructs the real "
    "ConvexPolyhedron and compares volume, surface_area, get_face_area (None/int/list/'total'), centroid, center, "
    "face_centroids, inertia_tensor with exact integrals over the exact hull of the same floats.  non-trivial = case with a "
    "non-identity placement, order or stretch (counted once per distinct case)."
)
ASSUMPTIONS = [
    "randomised quantifier clause 'random points on ellipsoids' replaced by the deterministic ELL family",
    "FAM/ELL hull combinatorics come from qhull as an untrusted hint, certified exactly (closed, oriented, convex)",
]
BOUNDS = {
    "quick": {"S3": "k<=5 x 8 placements; flat+needle stretches; all 24 orders of every 4-set; all 120 orders of every 7th 5-set", "FAM": "all x 2 placements", "ELL": "27 ellipsoids x 8 prefix lengths"},
    "thorough": {"S3": "k<=6 x medium placements (k<=5: all 360 placements); all orders of all 4/5-sets; closure orders of 6-sets", "FAM": "all x 8 placements", "ELL": "27 ellipsoids x all prefix lengths 4..60"},
}
TAU = 1e-9
STRETCH = {"flat": (1.0, 1.0, 2.0**-6), "needle": (2.0**6, 1.0, 1.0)}


def cases(tier):
    out = []
    pq = A.placements_quick()
    kmax = 5 if tier == "quick" else 6
    for k in range(4, kmax + 1):
        sets = A.s3(k)
        if tier == "quick":
            pls = pq
        else:
            pls = A.placements_all() if k <= 5 else A.placements_medium()
        for si, S in enumerate(sets):
            for pl in pls:
                out.append({"fam": "s3", "pts": S, "pl": pl})
            for st in STRETCH:
                out.append({"fam": "s3", "pts": S, "pl": pq[(si % 7) + 1], "stretch": st})
            if si % 5 == 0:
                for pl in A.placements_tiny():
                    out.append({"fam": "s3", "pts": S, "pl": pl})
            # vertex orders
            if k == 4 or (k == 5 and (tier == "thorough" or si % 7 == 0)):
                orders = A.all_orders(k)
            elif k == 5:
                orders = A.order_closure(k, 2)
            else:
                orders = A.order_closure(k, 3)
            for o in orders[1:]:
                out.append({"fam": "s3", "pts": S, "pl": pq[(si + len(o)) % 8], "order": list(o)})
    fam = FA.generated() + FA.tabulated()
    for i, (f, name, v) in enumerate(fam):
        pls = pq if tier == "thorough" else [pq[0], pq[1 + i % 7]]
        for pl in pls:
            out.append({"fam": "tab", "name": f + ":" + name, "pl": pl})
    lens = range(4, 61) if tier == "thorough" else (4, 5, 6, 8, 12, 20, 40, 60)
    for a in (1.0, 2.0, 5.0):
        for b in (1.0, 2.0, 5.0):
            for c in (1.0, 2.0, 5.0):
                for j, k in enumerate(lens):
                    out.append({"fam": "ell", "abc": [a, b, c], "k": k, "pl": pq[(j + int(a + b + c)) % 8]})
    return out


_TAB = None


def _tab():
    global _TAB
    if _TAB is None:
        _TAB = {f + ":" + n: v for f, n, v in FA.generated() + FA.tabulated()}
    return _TAB


def build_input(case):
    """-> (float vertex array as handed to the constructor, lattice points or None)"""
    if case["fam"] == "s3":
        pts = [tuple(p) for p in case["pts"]]
        if case.get("order"):
            pts = [pts[i] for i in case["order"]]
        base = np.array(pts, float)
        if case.get("stretch"):
            base = base * np.array(STRETCH[case["stretch"]])
        return A.apply_placement(case["pl"], base), pts
    if case["fam"] == "tab":
        v = np.array(_tab()[case["name"]], float)
        return A.apply_placement(case["pl"], v), None
    if case["fam"] == "ell":
        a, b, c = case["abc"]
        v = np.array(FA.ellipsoid_points(a, b, c, case["k"]), float)
        return A.apply_placement(case["pl"], v), None
    raise ValueError(case)


def run_case(case):
    from coxeter.shapes import ConvexPolyhedron

    rep = Report()
    F, lattice = build_input(case)
    try:
        ref = ConvexRef(F, lattice)
    except X.Degenerate as ex:
        rep.skip("reference-degenerate:" + str(ex)[:40])
        return rep
    except Exception as ex:  # qhull (hint only) refuses degenerate input
        rep.skip("reference-hint-failed:" + type(ex).__name__)
        return rep
    if len(ref.hull_vertices) != len(F):
        rep.skip("not-in-convex-position")
        return rep
    rep.states += 1
    rep.traces += 1
    pl = case["pl"]
    if pl != A.placement() or case.get("order") or case.get("stretch"):
        rep.nontrivial += 1
    L, D = ref.L, ref.D
    Fin = F.copy()
    # input forms: whole-number coordinates are also handed over as an int64 array or as nested lists of Python ints
    # (every third / every third+1 such case); the measures are those of the same point set
    if case.get("fam") == "s3" and np.all(F == np.round(F)) and np.max(np.abs(F)) < 2**31:
        k3 = sum(int(x) for x in F.ravel()) % 3
        if k3 == 1:
            Fin = F.astype(np.int64)
        elif k3 == 2:
            Fin = [[int(x) for x in r] for r in F]
    try:
        poly = ConvexPolyhedron(Fin)
    except Exception as ex:
        rep.violation("construct", "ConvexPolyhedron", "__init__", "raised:" + type(ex).__name__, case, "constructor raised %r on a vertex set in exact convex position" % (ex,))
        return rep

    def cmp(name, got, want, tol):
        rep.transitions += 1
        try:
            err = maxerr(got, want)
        except Exception:
            err = float("inf")
        rep.peak(name, err / tol)
        if err <= tol:
            rep.ok(name)
        else:
            rep.violation("measure", "ConvexPolyhedron", name, "mismatch", case, "%s: got %s want %s (|err|=%.3g > tol=%.3g, L=%.3g D=%.3g)" % (name, np.asarray(got).tolist(), np.asarray(want).tolist(), err, tol, L, D), expected=want, got=got, tol=tol)

    def guarded(name, fn, want, tol):
        try:
            got = fn()
        except Exception as ex:
            rep.transitions += 1
            rep.violation("measure", "ConvexPolyhedron", name, "raised:" + type(ex).__name__, case, "%s raised %r" % (name, ex))
            return
        cmp(name, got, want, tol)

    area = ref.total_area()
    # condition number of the centroid of a thin shape far from the origin: first moments are
    # O(S D^2) and are divided by V, so rounding is amplified by kappa = S L / (6 V) >= 1
    kappa = max(1.0, area * L / (6.0 * ref.V))
    guarded("volume", lambda: poly.volume, ref.V, TAU * L * L * D)
    guarded("surface_area", lambda: poly.surface_area, area, TAU * L * D)
    guarded("get_face_area('total')", lambda: poly.get_face_area("total"), area, TAU * L * D)
    guarded("centroid", lambda: poly.centroid, ref.centroid, TAU * D * kappa)
    guarded("center", lambda: poly.center, ref.centroid, TAU * D * kappa)
    guarded("inertia_tensor", lambda: poly.inertia_tensor, ref.I, TAU * L**3 * D * D)

    # per-face quantities, matched by vertex set
    try:
        faces = [list(map(int, f)) for f in poly.faces]
    except Exception as ex:
        rep.violation("measure", "ConvexPolyhedron", "faces", "raised:" + type(ex).__name__, case, repr(ex))
        return rep
    groups = ref.group_by(faces)
    if groups is None or any(len(g) == 0 for g in groups.values()):
        rep.violation("measure", "ConvexPolyhedron", "faces", "not-hull-facets", case, "faces %s are not unions of the exact hull facets %s" % (faces, ref.faces))
        return rep
    want_area = []
    want_cen = []
    for f in faces:
        g = groups[ref.face_key(f)]
        ars = [X.tri_area_sum(ref.Pint, rf, ref.e) for rf in g]
        want_area.append(sum(ars))
        if len(g) == 1:
            want_cen.append(X.face_centroid(ref.Pint, g[0], ref.e))
        else:
            cs = [X.face_centroid(ref.Pint, rf, ref.e) for rf in g]
            tot = sum(ars)
            want_cen.append([sum(a * c[m] for a, c in zip(ars, cs)) / tot for m in range(3)])
    tolA = TAU * L * D
    guarded("get_face_area()", lambda: np.asarray(poly.get_face_area(), float), np.array(want_area), tolA)
    nf = len(faces)
    idx = sorted({0, nf // 2, nf - 1})
    for i in idx:
        guarded("get_face_area(int)", lambda i=i: float(np.asarray(poly.get_face_area(i)).reshape(-1)[0]), want_area[i], tolA)
    sel = [nf - 1, 0] + ([1] if nf > 2 else [])
    guarded("get_face_area(list)", lambda: np.asarray(poly.get_face_area(sel), float), np.array([want_area[i] for i in sel]), tolA)
    guarded("face_centroids", lambda: np.asarray(poly.face_centroids, float), np.array(want_cen), TAU * D)
    # reading again after all the queries gives the same numbers (memo fields)
    guarded("volume(after reads)", lambda: poly.volume, ref.V, TAU * L * L * D)
    guarded("centroid(after reads)", lambda: poly.centroid, ref.centroid, TAU * D * kappa)
    if not np.array_equal(Fin, F):
        rep.violation("measure", "ConvexPolyhedron", "__init__", "input-mutated", case, "the vertex array passed to the constructor was modified")
    rep.sample({"case": case, "volume": ref.V, "centroid": ref.centroid, "faces": len(faces)})
    return rep
