"""C11 - rounded shapes obey the Steiner formulas; curvature descriptors match definitions."""
import math

import numpy as np

from .. import alphabet as A
from .. import exact as X
from .. import families_alpha as FA
from ..common import Report
from ..refs import ConvexRef, maxerr
from .c04 import PL3, place

PROPERTY = "C11"
ENGINE = "E2"
TECHNIQUE = "bounded-exhaustive enumeration of convex cores x radii x placements vs Steiner formulas with exact V,S,A,P and mean curvature from exact integer normals"
RULE = (
    "cases = convex core (S3 lattice hulls, FAM tabulated/generated solids; CP2 convex lattice polygons and regular n-gons) x "
    "rounding radius r/L in {0,1e-3,0.1,1,10,100} x placement; V, S, A, P are exact integrals of the placed floats, M = sum over "
    "edges of length x exterior angle / 8 pi with the angle from atan2(|n1 x n2|, n1.n2) on exact integer normals of the exact "
    "hull (certified qhull triangles for FAM) - independent of coxeter's faces/neighbours/equations.  Checked: spheropolyhedron "
    "volume/surface_area/mean_curvature, spheropolygon area/perimeter, r=0 reproduces the core, ConvexPolyhedron "
    "mean_curvature/tau/asphericity/iq.  non-trivial = r>0 or non-identity placement."
)
ASSUMPTIONS = ["radii 0 and 1e-3..1e2 of the core size sampled at the six values stated"]
BOUNDS = {"quick": {"3D": "S3(4) every 2nd, S3(5) every 6th, all FAM; 6 radii", "2D": "CP2(<=5) every 3rd + regular n-gons 3..30; 6 radii"}, "thorough": {"3D": "S3(<=5) all, S3(6) every 10th", "2D": "all CP2"}}
TAU = 1e-9
RADII = [0.0, 1e-3, 0.1, 1.0, 10.0, 100.0]
_TAB = None


def _tab():
    global _TAB
    if _TAB is None:
        _TAB = {f + ":" + n: v for f, n, v in FA.generated() + FA.tabulated()}
    return _TAB


def cases(tier):
    out = []
    q = tier == "quick"
    pq = A.placements_quick()
    for k in (4, 5, 6):
        if k == 6 and q:
            continue
        for i, S in enumerate(A.s3(k)):
            if q and i % (2 if k == 4 else 6):
                continue
            if k == 6 and i % 10:
                continue
            out.append({"dim": 3, "fam": "s3", "pts": S, "pl": pq[i % 8]})
            if i % 10 == 0:
                tp = A.placements_tiny()
                out.append({"dim": 3, "fam": "s3", "pts": S, "pl": tp[(i // 10) % len(tp)]})
    for i, name in enumerate(sorted(_tab())):
        if name.startswith("science"):
            if q and i % 3:
                continue
        out.append({"dim": 3, "fam": "tab", "name": name, "pl": pq[i % 8]})
    for i, c in enumerate(A.cp2(5, 4)):
        if q and i % 3:
            continue
        out.append({"dim": 2, "fam": "cp2", "poly": [list(p) for p in c], "pl": PL3[i % 8]})
        if i % 12 == 0:
            tp = A.placements_tiny()
            out.append({"dim": 2, "fam": "cp2", "poly": [list(p) for p in c], "pl": tp[(i // 12) % len(tp)]})
    for n in range(3, 31):
        out.append({"dim": 2, "fam": "ngon", "n": n, "phase": (n % 7) * math.pi / 7, "pl": PL3[n % 8]})
    return out


def run_case(case):
    from coxeter import shapes as S

    rep = Report()
    if case["dim"] == 3:
        if case["fam"] == "s3":
            lat = [tuple(p) for p in case["pts"]]
            F = A.apply_placement(case["pl"], np.array(lat, float))
        else:
            lat = None
            F = A.apply_placement(case["pl"], np.array(_tab()[case["name"]], float))
        try:
            ref = ConvexRef(F, lat)
        except Exception as ex:
            rep.skip("reference-failed:" + type(ex).__name__)
            return rep
        if len(ref.hull_vertices) != len(F):
            rep.skip("not-in-convex-position")
            return rep
        V, Sa = ref.V, ref.total_area()
        # integrated mean curvature from exact normals of the reference faces
        P, e = ref.Pint, ref.e
        nrm = {}
        edges = {}
        for fi, f in enumerate(ref.faces):
            nrm[fi] = X.vector_area2(P, f)
            for i in range(len(f)):
                a, b = f[i], f[(i + 1) % len(f)]
                edges.setdefault((min(a, b), max(a, b)), []).append(fi)
        M = 0.0
        for (a, b), fs in edges.items():
            n1, n2 = nrm[fs[0]], nrm[fs[1]]
            cr = X.cross(n1, n2)
            th = math.atan2(X.sqrt_ratio(X.dot(cr, cr)), X.fl(X.dot(n1, n2))) if X.dot(cr, cr) != 0 else (0.0 if X.dot(n1, n2) > 0 else math.pi)
            M += X.edge_length(P, a, b, e) * th
        M /= 8 * math.pi
        L = ref.L
        rep.states += 1
        rep.traces += 1
        try:
            core = S.ConvexPolyhedron(F.copy())
        except Exception as ex:
            rep.violation("construct", "ConvexPolyhedron", "__init__", "raised:" + type(ex).__name__, case, repr(ex))
            return rep

        def cmp(label, name, fn, want, tol):
            rep.transitions += 1
            try:
                got = fn()
            except Exception as ex:
                rep.violation("steiner", label, name, "raised:" + type(ex).__name__, case, "%s raised %r" % (name, ex))
                return
            err = maxerr(got, want)
            rep.peak(label + "." + name, err / tol)
            if err <= tol:
                rep.ok(name)
            else:
                rep.violation("steiner", label, name, "mismatch", case, "%s.%s = %r, definition gives %r (|err|=%.3g > %.3g)" % (label, name, got, want, err, tol), expected=want, got=got, tol=tol)

        cmp("ConvexPolyhedron", "mean_curvature", lambda: core.mean_curvature, M, TAU * L)
        cmp("ConvexPolyhedron", "tau", lambda: core.tau, 4 * math.pi * M * M / Sa, 1e-8)
        cmp("ConvexPolyhedron", "asphericity", lambda: core.asphericity, M * Sa / (3 * V), 1e-8 * max(1.0, M * Sa / (3 * V)))
        cmp("ConvexPolyhedron", "iq", lambda: core.iq, 36 * math.pi * V * V / Sa**3, 1e-8)
        for r_rel in RADII:
            r = r_rel * L
            if r_rel > 0 or case["pl"] != A.placement():
                rep.nontrivial += 1
            try:
                sp = S.ConvexSpheropolyhedron(F.copy(), r)
            except Exception as ex:
                rep.violation("construct", "ConvexSpheropolyhedron", "__init__", "raised:" + type(ex).__name__, case, "r=%g: %r" % (r, ex))
                continue
            wv = V + Sa * r + 4 * math.pi * M * r * r + 4.0 / 3.0 * math.pi * r**3
            ws = Sa + 8 * math.pi * M * r + 4 * math.pi * r * r
            tag = "(r/L=%g)" % r_rel
            cmp("ConvexSpheropolyhedron", "volume" + ("(r=0)" if r == 0 else ""), lambda: sp.volume, wv, TAU * wv)
            cmp("ConvexSpheropolyhedron", "surface_area" + ("(r=0)" if r == 0 else ""), lambda: sp.surface_area, ws, TAU * ws)
            cmp("ConvexSpheropolyhedron", "mean_curvature" + ("(r=0)" if r == 0 else ""), lambda: sp.mean_curvature, M + r, TAU * (M + r))
        rep.sample({"case": case, "V": V, "S": Sa, "M": M})
        return rep
    # ---- 2-D
    if case["fam"] == "cp2":
        poly = [tuple(p) for p in case["poly"]]
    else:
        poly = A.regular_ngon(case["n"], case["phase"])
    F, s, R, t = place({"pl": case["pl"]}, poly)
    n = len(poly)
    Aex = abs(sum(poly[i][0] * poly[(i + 1) % n][1] - poly[(i + 1) % n][0] * poly[i][1] for i in range(n))) / 2.0 * s * s
    per = sum(math.dist(poly[i], poly[(i + 1) % n]) for i in range(n)) * s
    L = float(np.max(np.linalg.norm(F[:, None] - F[None], axis=-1)))
    rep.states += 1
    rep.traces += 1
    for r_rel in RADII:
        r = r_rel * L
        if r_rel > 0:
            rep.nontrivial += 1
        try:
            sp = S.ConvexSpheropolygon(F.copy(), r)
        except Exception as ex:
            rep.violation("construct", "ConvexSpheropolygon", "__init__", "raised:" + type(ex).__name__, case, "r=%g: %r" % (r, ex))
            continue
        for name, want in (("area", Aex + per * r + math.pi * r * r), ("perimeter", per + 2 * math.pi * r)):
            rep.transitions += 1
            try:
                got = float(getattr(sp, name))
            except Exception as ex:
                rep.violation("steiner", "ConvexSpheropolygon", name, "raised:" + type(ex).__name__, case, repr(ex))
                continue
            tol = TAU * want * 10
            rep.peak("ConvexSpheropolygon." + name, abs(got - want) / tol)
            if abs(got - want) <= tol:
                rep.ok(name + ("(r=0)" if r == 0 else ""))
            else:
                rep.violation("steiner", "ConvexSpheropolygon", name, "mismatch", case, "r/L=%g: %s=%r, Steiner formula gives %r" % (r_rel, name, got, want), expected=want, got=got, tol=tol)
    rep.sample({"case": case, "A": Aex, "P": per})
    return rep
