"""C20 - exported mesh files describe exactly the polyhedron."""
import os
import tempfile
import warnings

import numpy as np

from .. import alphabet as A
from .. import exact as X
from .. import families_alpha as FA
from .. import parsers as P
from ..common import Report

PROPERTY = "C20"
ENGINE = "E2"
TECHNIQUE = "bounded-exhaustive enumeration of polyhedra x coordinate transforms x 7 formats x 2 entry points, read back by independent strict parsers"
RULE = (
    "cases = polyhedron (S3 lattice hulls, prisms n=3..12 so face degrees 3..12 occur, VOX 2x2x2 voxel solids) as ConvexPolyhedron "
    "and as Polyhedron x coordinate transform (scales 1e-6..1e6 and shifts of either sign so that exponent notation occurs) x the "
    "seven formats through save(filetype, ...) and coxeter.io.to_*; every file is read back by an independent strict parser written "
    "from the format specification: well-formed, declared counts match the data, vertex coordinates bit-identical to the "
    "polyhedron's, faces identical cycles (hence outward); STL: closed consistently oriented triangle mesh on the polyhedron's "
    "vertices, each triangle inside one face, normals outward, signed volume = V; unknown filetype raises ValueError; the shape's "
    "instance dictionary is bit-identical afterwards.  non-trivial = every (shape, transform, format) triple."
)
ASSUMPTIONS = ["parsers implement the subset of each specification needed for polygon meshes (OBJ v/f, OFF header+counts, PLY ascii 1.0, legacy VTK POLYDATA, ASCII STL, X3D IndexedFaceSet, XHTML-wrapped X3D)"]
BOUNDS = {"quick": {"shapes": "S3(4) every 30th, S3(5) every 100th, 10 prisms, VOX every 8th; x 2 classes x 4 transforms x 7 formats x 2 entry points"}, "thorough": {"shapes": "S3(4) every 5th, S3(5) every 20th, all VOX"}}
CHUNK = 4
FORMATS = ["OBJ", "OFF", "STL", "PLY", "VTK", "X3D", "HTML"]
TRANSFORMS = [(1.0, (0.0, 0.0, 0.0)), (1e-6, (-3e-6, 2e-6, 5e-7)), (1e6, (-2.5e6, 1.0, 3e6)), (0.37, (1e5, -1e-5, -7.25)), (0.013, (-0.051, 0.0007, -0.0333))]


def cases(tier):
    out = []
    q = tier == "quick"
    k = 0
    for kk, step in ((4, 30 if q else 5), (5, 100 if q else 20)):
        for i, S in enumerate(A.s3(kk)):
            if i % step == 0:
                for cls in ("ConvexPolyhedron", "Polyhedron"):
                    for ti in range(len(TRANSFORMS)):
                        out.append({"src": "s3", "pts": S, "cls": cls, "tr": ti})
    for n in range(3, 13):
        for cls in ("ConvexPolyhedron", "Polyhedron"):
            for ti in ((n % 5), (n + 1) % 5, 4):
                out.append({"src": "prism", "n": n, "cls": cls, "tr": ti})
    for i in range(len(A.vox((2, 2, 2)))):
        if i % (8 if q else 1) == 0:
            for ti in range(len(TRANSFORMS)):
                out.append({"src": "vox", "i": i, "cls": "Polyhedron", "tr": ti})
    # a solid with a hole (genus 1: V - E + F = 0, so an edge count from Euler's formula is wrong)
    for ti in range(len(TRANSFORMS)):
        out.append({"src": "frame", "cls": "Polyhedron", "tr": ti})
    out.append({"src": "dispatch"})
    return out


def build(case):
    from coxeter import shapes as S

    s, t = TRANSFORMS[case["tr"]]
    if case["src"] == "s3":
        Pn = [tuple(p) for p in case["pts"]]
        F = np.array(Pn, float) * s + np.array(t)
        faces = [list(ext) for _, _, _, ext in X.hull_facets(Pn)]
    elif case["src"] == "prism":
        base = np.array(FA.prism(case["n"], 0.8), float)
        F = base * s + np.array(t)
        faces = None
    elif case["src"] == "frame":
        v = [x for x in A.vox((3, 3, 1)) if len(x["cells"]) == 8 and (1, 1, 0) not in set(map(tuple, x["cells"]))][0]
        F = np.array(v["verts"], float) * s + np.array(t)
        faces = [list(f) for f in v["faces"]]
    else:
        v = A.vox((2, 2, 2))[case["i"]]
        F = np.array(v["verts"], float) * s + np.array(t)
        faces = [list(f) for f in v["faces"]]
    if case["cls"] == "ConvexPolyhedron":
        return S.ConvexPolyhedron(F)
    if faces is None:
        c = S.ConvexPolyhedron(F)
        faces = [list(map(int, f)) for f in c.faces]
    return S.Polyhedron(F, [np.array(f) for f in faces], faces_are_convex=True)


def _state(obj, keys):
    """bit-exact fingerprint of the fields that existed before the export (memo fields may appear)"""
    from .. import e1

    class _V:
        pass

    v = _V()
    v.__dict__.update({k: vars(obj)[k] for k in keys if k in vars(obj)})
    return (sorted(k for k in keys if k in vars(obj)), e1.exact_state(v))


def cyc(f):
    f = [int(x) for x in f]
    i = f.index(min(f))
    return tuple(f[i:] + f[:i])


def run_case(case):
    import coxeter.io
    from coxeter import shapes as S
    from .. import e1

    rep = Report()
    with warnings.catch_warnings():
        warnings.simplefilter("ignore")
        if case["src"] == "dispatch":
            cube = S.ConvexPolyhedron(np.array(FA.prism(4, 1.0), float))
            d = tempfile.mkdtemp(prefix="c20_")
            try:
                for bad in ("obj", "XYZ", "", "Stl", None):
                    rep.transitions += 1
                    rep.states += 1
                    try:
                        cube.save(bad, os.path.join(d, "x"))
                        rep.violation("export", "ConvexPolyhedron", "save", "unknown-filetype-accepted", case, "save(%r, ...) did not raise" % (bad,))
                    except ValueError:
                        rep.ok("unknown-filetype-ValueError")
                    except Exception as ex:
                        rep.violation("export", "ConvexPolyhedron", "save", "wrong-exception:" + type(ex).__name__, case, "save(%r) raised %r" % (bad, ex))
                    if os.listdir(d):
                        rep.violation("export", "ConvexPolyhedron", "save", "file-written-for-unknown-type", case, "a file was created for filetype %r" % (bad,))
                        for fn in os.listdir(d):
                            os.remove(os.path.join(d, fn))
            finally:
                os.rmdir(d)
            return rep
        try:
            poly = build(case)
        except Exception as ex:
            rep.skip("shape-does-not-construct:" + type(ex).__name__)
            return rep
        cls = type(poly).__name__
        V = np.asarray(poly.vertices, float).copy()
        faces = [[int(i) for i in f] for f in poly.faces]
        want_cyc = sorted(cyc(f) for f in faces)
        nE = len(X.mesh_edges(faces))
        vol = float(poly.volume)
        keys0 = set(vars(poly))
        state0 = _state(poly, keys0)
        d = tempfile.mkdtemp(prefix="c20_")
        try:
            for fmt in FORMATS:
                for entry in ("save", "io"):
                    rep.states += 1
                    rep.traces += 1
                    rep.nontrivial += 1
                    rep.transitions += 1
                    path = os.path.join(d, "out_%s_%s.%s" % (fmt, entry, fmt.lower()))
                    try:
                        if entry == "save":
                            poly.save(fmt, path)
                        else:
                            getattr(coxeter.io, "to_" + fmt.lower())(poly, path)
                        with open(path, "rb") as f:
                            raw = f.read()
                        os.remove(path)
                    except Exception as ex:
                        rep.violation("export", cls, fmt, "raised:" + type(ex).__name__, case, "%s export via %s raised %r" % (fmt, entry, ex))
                        continue
                    try:
                        text = raw.decode("ascii")
                    except UnicodeDecodeError:
                        try:
                            text = raw.decode("utf8")
                        except Exception:
                            rep.violation("export", cls, fmt, "not-text", case, "file is not text")
                            continue
                    msg = check_file(fmt, text, V, faces, want_cyc, nE, vol)
                    if msg:
                        rep.violation("export", cls, fmt, msg[0], case, "%s (%s): %s" % (fmt, entry, msg[1]))
                    else:
                        rep.ok(fmt)
            # history: all seven formats saved next to each other under one stem, read back only afterwards (an
            # export must not overwrite or delete another export's file)
            texts = {}
            try:
                for fmt in FORMATS:
                    poly.save(fmt, os.path.join(d, "shape." + fmt.lower()))
                for fmt in FORMATS:
                    pth = os.path.join(d, "shape." + fmt.lower())
                    rep.transitions += 1
                    if not os.path.exists(pth):
                        rep.violation("export", cls, fmt, "file-removed-by-later-export", case, "shape.%s no longer exists after the other formats were saved under the same stem" % fmt.lower())
                        continue
                    with open(pth, "rb") as f:
                        texts[fmt] = f.read().decode("utf8", "replace")
                    os.remove(pth)
                    msg = check_file(fmt, texts[fmt], V, faces, want_cyc, nE, vol)
                    if msg and msg[0] != "off-header-stray-f":
                        rep.violation("export", cls, fmt, "same-stem:" + msg[0], case, "%s (saved next to the other formats): %s" % (fmt, msg[1]))
                    else:
                        rep.ok("same-stem:" + fmt)
            except Exception as ex:
                rep.violation("export", cls, "save", "same-stem-raised:" + type(ex).__name__, case, repr(ex))
            leftovers = os.listdir(d)
            if leftovers:
                rep.violation("export", cls, "save", "stray-files", case, "export left extra files: %s" % leftovers)
                for fn in leftovers:
                    os.remove(os.path.join(d, fn))
        finally:
            os.rmdir(d)
        rep.transitions += 1
        if _state(poly, keys0) != state0:
            rep.violation("export", cls, "save", "shape-changed", case, "exporting changed the polyhedron's stored data (new private memo fields are allowed, changes to existing fields are not)")
        else:
            rep.ok("shape-unchanged")
        rep.sample({"case": case, "class": cls, "V": len(V), "F": len(faces)})
    return rep


def same_vertices(PV, V):
    if len(PV) != len(V):
        return "declared/parsed %d vertices, polyhedron has %d" % (len(PV), len(V))
    A_ = np.array(PV, float)
    if A_.shape != V.shape or not np.array_equal(A_, V):
        bad = int(np.argmax(np.any(A_ != V, axis=1))) if A_.shape == V.shape else -1
        return "vertex %d reads back as %s, polyhedron has %s (not bit-identical)" % (bad, A_[bad].tolist() if bad >= 0 else "?", V[bad].tolist() if bad >= 0 else "?")
    return None


def check_file(fmt, text, V, faces, want_cyc, nE, vol):
    try:
        if fmt == "OBJ":
            PV, PF = P.parse_obj(text)
        elif fmt == "OFF":
            try:
                PV, PF, ne = P.parse_off(text)
            except P.FormatError as ex:
                # bug model of the recorded finding: a stray 'f' in front of the face count
                import re

                fixed, n = re.subn(r"(?m)^(\d+) f(\d+) (\d+)$", r"\1 \2 \3", text, count=1)
                if n == 1:
                    try:
                        PV, PF, ne = P.parse_off(fixed)
                        rest = None
                        if ne != nE:
                            rest = "declared edges"
                        elif same_vertices(PV, V) or [cyc(f) for f in PF] != [cyc(f) for f in faces]:
                            rest = "vertices/faces"
                        if rest is None:
                            return ("off-header-stray-f", "the counts line reads %r: the face count carries a stray 'f' (everything else is correct)" % re.search(r"(?m)^\d+ f\d+ \d+$", text).group(0))
                    except P.FormatError:
                        pass
                raise ex
            if ne != nE:
                return ("declared-count", "declares %d edges, polyhedron has %d" % (ne, nE))
        elif fmt == "PLY":
            PV, PF = P.parse_ply(text)
        elif fmt == "VTK":
            PV, PF = P.parse_vtk(text)
        elif fmt == "STL":
            tris = P.parse_stl(text)
            return check_stl(tris, V, faces, vol)
        elif fmt in ("X3D", "HTML"):
            PP, PF = (P.parse_x3d if fmt == "X3D" else P.parse_html)(text)
            # map the (duplicated) points back to vertex indices, bit-exactly
            index = {tuple(v.tolist()): i for i, v in enumerate(V)}
            try:
                PF = [[index[tuple(PP[i])] for i in f] for f in PF]
            except KeyError:
                return ("vertices", "a Coordinate point is not (bit-identically) a vertex of the polyhedron")
            used = {i for f in PF for i in f}
            if used != set(range(len(V))):
                return ("vertices", "not every vertex occurs in the IndexedFaceSet")
            PV = [tuple(v.tolist()) for v in V]
    except P.FormatError as ex:
        return ("malformed", str(ex))
    except Exception as ex:
        return ("malformed", "parser failed: %r" % (ex,))
    m = same_vertices(PV, V)
    if m:
        return ("vertices", m)
    if len(PF) != len(faces):
        return ("faces", "%d faces, polyhedron has %d" % (len(PF), len(faces)))
    got = sorted(cyc(f) for f in PF)
    if got != want_cyc:
        rev = sorted(cyc(f[::-1]) for f in PF)
        return ("faces", "face cycles differ" + (" (all reversed: inward orientation)" if rev == want_cyc else "") + ": %s vs %s" % (got[:3], want_cyc[:3]))
    if [cyc(f) for f in PF] != [cyc(f) for f in faces]:
        return ("faces", "faces are written in a different order than poly.faces")
    return None


def check_stl(tris, V, faces, vol):
    index = {tuple(v.tolist()): i for i, v in enumerate(V)}
    T = []
    for nrm, vs in tris:
        try:
            T.append([index[tuple(v)] for v in vs])
        except KeyError:
            return ("vertices", "an STL vertex %s is not (bit-identically) a vertex of the polyhedron" % (vs,))
    if len(T) != sum(len(f) - 2 for f in faces):
        return ("faces", "%d triangles for faces needing %d" % (len(T), sum(len(f) - 2 for f in faces)))
    if not X.mesh_is_closed_oriented(T):
        return ("faces", "triangles do not form a closed consistently oriented surface")
    fsets = [set(f) for f in faces]
    for t in T:
        if sum(1 for s in fsets if set(t) <= s) < 1:
            return ("faces", "triangle %s is not inside a face of the polyhedron" % (t,))
    sv = sum(float(np.linalg.det(V[t])) for t in T) / 6.0
    L = float(np.linalg.norm(V.max(0) - V.min(0)))
    D = L + float(np.linalg.norm(V.mean(0)))
    if abs(sv - vol) > 1e-9 * L * L * D:
        return ("faces", "signed volume of the triangles %r, polyhedron volume %r (inward orientation?)" % (sv, vol))
    for (nrm, vs), t in zip(tris, T):
        a, b, c = V[t[0]], V[t[1]], V[t[2]]
        n = np.cross(b - a, c - a)
        nn = np.array(nrm, float)
        if np.linalg.norm(nn) == 0 or np.linalg.norm(n) == 0:
            return ("normals", "zero normal for triangle %s" % (t,))
        if float(nn @ n) / (np.linalg.norm(nn) * np.linalg.norm(n)) < 1 - 1e-9:
            return ("normals", "facet normal %s is not the outward normal of triangle %s" % (nrm, t))
    return None
