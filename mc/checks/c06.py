"""C06 - 2-D point containment equals exact membership."""
import math
from fractions import Fraction as Fr

import numpy as np

from .. import alphabet as A
from .. import exact as X
from ..common import Report
from .c04 import PL2, PL3, place

PROPERTY = "C06"
ENGINE = "E2"
TECHNIQUE = "bounded-exhaustive enumeration of polygons/circles/ellipses x placements x complete in-plane query lattices with exact membership oracles"
RULE = (
    "cases = simple lattice polygon of P2(n,4) (both orientations, every 2nd cyclic start) x normal in {default,+n,-n} x placement "
    "(3-D group G or in-plane) for Polygon and, on the convex subset, ConvexPolygon; circles and ellipses over CURV axes (a<b, "
    "a=b, a>b, near ties) x 4 centres.  Query alphabet: complete half-integer lattice of the enlarged bounding box (all four "
    "quadrants, shares x or y with vertices) plus points offset +-{1e-5,1e-3,0.3} from edge midpoints and vertices; each point "
    "decided by an exact crossing-number / rational quadratic-form oracle; points closer than 1e-6 L to the boundary skipped.  "
    "Batch, reversed batch, single (3,) calls and (N,2) input (polygons in z=0) must agree.  Also: every 7th polygon case 2^27 sizes from the origin (dyadic shift); whole-number points as int64/int32 arrays and nested lists of ints must be answered like the same floats.  non-trivial = decided point."
)
ASSUMPTIONS = ["'uniform in an enlarged bounding box' replaced by the complete half-integer lattice plus edge/vertex offset points"]
BOUNDS = {"quick": {"polygons": "n=3,4 all, every 4th 5-gon; starts 0 and 2", "curved": "81 ellipses x 2 centres, 9 circles x 4"}, "thorough": {"polygons": "n<=5 all, all starts", "curved": "81 x 4"}}
MARGIN = 1e-6
OFFS = [Fr(1, 100000), Fr(1, 1000), Fr(3, 10)]
CHUNK = 40
FAR2 = [
    {"rz": 0, "scale": 1.0, "shift": [0.0, 0.0], "abs": [-(2.0**27), 2.0**27]},
    {"rz": 1, "scale": 1.0, "shift": [0.0, 0.0], "abs": [2.0**27, 2.0**24]},
    {"rz": 2, "scale": 2.0**-10, "shift": [0.0, 0.0], "abs": [-(2.0**17), -(2.0**17)]},
]


def cases(tier):
    out = []
    q = tier == "quick"
    for n in (3, 4, 5):
        for i, c in enumerate(A.p2_thin(n, 4)):
            if q and n == 5 and i % 4:
                continue
            for st in range(n) if not q else (0, 2):
                for ns, nspec in enumerate((None, "+", "-")):
                    k = i + st + ns
                    key, pl = ("pl2", PL2[k % len(PL2)]) if k % 2 == 0 else ("pl", PL3[k % len(PL3)])
                    out.append({"kind": "polygon", "poly": [list(p) for p in c], "start": st, "normal": nspec, key: pl})
                    if k % 7 == 0:
                        # "irrespective of centre offset": 2^27 sizes from the origin (membership stays well conditioned:
                        # the margin is 2e-6 L, the coordinates are exact to 3e-8)
                        out.append({"kind": "polygon", "poly": [list(p) for p in c], "start": st, "normal": nspec, "pl2": FAR2[(k // 7) % len(FAR2)]})
    axes = A.AXES
    for ia, a in enumerate(axes):
        for k in range(4):
            out.append({"kind": "circle", "r": a, "centre": k})
        for ib, b in enumerate(axes):
            for k in range(2 if q else 4):
                out.append({"kind": "ellipse", "ab": [a, b], "centre": (ia + ib + k) % 4})
    return out


def queries2(poly):
    lo = [min(p[m] for p in poly) for m in range(2)]
    hi = [max(p[m] for p in poly) for m in range(2)]
    Q = [(Fr(x, 2), Fr(y, 2)) for x in range(2 * (lo[0] - 1), 2 * (hi[0] + 1) + 1) for y in range(2 * (lo[1] - 1), 2 * (hi[1] + 1) + 1)]
    n = len(poly)
    c = (Fr(sum(p[0] for p in poly), n), Fr(sum(p[1] for p in poly), n))
    for i in range(n):
        a, b = poly[i], poly[(i + 1) % n]
        mid = (Fr(a[0] + b[0], 2), Fr(a[1] + b[1], 2))
        nrm = (Fr(b[1] - a[1]), Fr(a[0] - b[0]))  # a normal of the edge (length = edge length)
        for f in (mid, (Fr(a[0]), Fr(a[1]))):
            for d in OFFS:
                Q.append((f[0] + d * nrm[0], f[1] + d * nrm[1]))
                Q.append((f[0] - d * nrm[0], f[1] - d * nrm[1]))
    return Q


def seg_dists(Q, poly):
    Q = np.asarray(Q, float)
    P = np.asarray(poly, float)
    best = np.full(len(Q), np.inf)
    for i in range(len(P)):
        a, b = P[i], P[(i + 1) % len(P)]
        ab = b - a
        t = np.clip(((Q - a) @ ab) / (ab @ ab), 0, 1)
        best = np.minimum(best, np.linalg.norm(Q - (a + t[:, None] * ab), axis=1))
    return best


def run_case(case):
    from coxeter import shapes as S

    rep = Report()
    if case["kind"] == "polygon":
        poly = [tuple(p) for p in case["poly"]]
        st = case["start"]
        cyc = poly[st:] + poly[:st]
        Q = queries2(cyc)
        want = np.array([X.point_in_polygon_exact(cyc, x) == "in" for x in Q])
        Qf = np.array([[float(x), float(y)] for x, y in Q])
        dist = seg_dists(Qf, cyc)
        Llat = float(np.max(np.linalg.norm(np.array(cyc, float)[:, None] - np.array(cyc, float)[None], axis=-1)))
        clear = dist > 2 * MARGIN * Llat
        F, s, R, t = place(case, cyc)
        W = (np.hstack([Qf, np.zeros((len(Qf), 1))]) @ R.T) * s + t
        o1 = X.sign(X._orient2(cyc[0], cyc[1], cyc[2]))
        nz = {None: o1, "+": 1, "-": -1}[case["normal"]]
        kw = {}
        if case["normal"] is not None:
            kw["normal"] = R @ np.array([0.0, 0.0, float(nz)])
        classes = [("Polygon", S.Polygon)]
        ccw = cyc if X.shoelace2(cyc) > 0 else cyc[::-1]
        if X.is_convex_ccw(ccw):
            classes.append(("ConvexPolygon", S.ConvexPolygon))
        planar_input = "pl2" in case
    else:
        if case["kind"] == "circle":
            a = b = case["r"]
        else:
            a, b = case["ab"]
        c = A.curv_centres(2 * max(a, b))[case["centre"]]
        us = [k / 4.0 for k in range(-8, 9)]
        U = [(x, y) for x in us for y in us]
        for k in range(24):
            th = 2 * math.pi * (k + 0.37) / 24
            for f in (0.5, 0.999, 0.99999, 1.00001, 1.001, 1.5):
                U.append((f * math.cos(th), f * math.sin(th)))
        for f in (0.99999, 1.00001):
            U += [(f, 0.0), (-f, 0.0), (0.0, f), (0.0, -f)]
        U = np.array(U)
        W = np.hstack([np.array(c[:2]) + U * np.array([a, b]), np.full((len(U), 1), c[2])])
        aF, bF, cx, cy = Fr(float(a)), Fr(float(b)), Fr(float(c[0])), Fr(float(c[1]))
        qv = [((Fr(float(w[0])) - cx) / aF) ** 2 + ((Fr(float(w[1])) - cy) / bF) ** 2 for w in W]
        want = np.array([v <= 1 for v in qv])
        clear = np.array([abs(math.sqrt(float(v)) - 1.0) > 2 * MARGIN for v in qv])
        kw = {}
        classes = [("Circle", None)] if case["kind"] == "circle" else [("Ellipse", None)]
        planar_input = False
    rep.states += 1
    rep.traces += 1
    rep.skip("within-margin-of-boundary", int((~clear).sum()))
    for label, cls in classes:
        try:
            if cls is not None:
                obj = cls(F.copy(), **kw)
            elif label == "Circle":
                obj = S.Circle(a, c)
            else:
                obj = S.Ellipse(a, b, c)
        except Exception as ex:
            rep.violation("construct", label, "__init__", "raised:" + type(ex).__name__, case, "constructor raised %r" % (ex,))
            continue
        Win = W.copy()
        try:
            got = np.asarray(obj.is_inside(Win))
        except Exception as ex:
            rep.violation("membership", label, "is_inside", "raised:" + type(ex).__name__, case, "is_inside raised %r" % (ex,))
            continue
        rep.transitions += len(W)
        if got.shape != (len(W),):
            rep.violation("membership", label, "is_inside", "bad-result-shape", case, "shape %s for %d points" % (got.shape, len(W)))
            continue
        if not np.array_equal(Win, W):
            rep.violation("membership", label, "is_inside", "argument-mutated", case, "is_inside modified its argument")
        bad = np.where((got.astype(bool) != want) & clear)[0]
        rep.ok("decided-points", int(clear.sum()) - len(bad))
        rep.nontrivial += int(clear.sum())
        model_hit = False
        if label == "Ellipse" and len(bad):
            # bug model of the recorded finding: one-sided bounding-box test  dx <= a and dy <= b
            dxy = W[:, :2] - np.array(c[:2], float)
            model = (dxy[:, 0] / a <= 1) & (dxy[:, 1] / b <= 1)
            model_hit = bool(np.array_equal(got.astype(bool), model))
        for i in bad[:2]:
            rep.violation("membership", label, "is_inside", "one-sided-bounding-box" if model_hit else ("wrong-inside" if got[i] else "wrong-outside"), case, "%s.is_inside(%s) = %s but the point is exactly %s; query #%d/%d (%d wrong in this case)" % (label, W[i].tolist(), bool(got[i]), "inside" if want[i] else "outside", i, len(W), len(bad)), expected=bool(want[i]), got=bool(got[i]))
        ci = np.where(clear)[0]
        if len(ci) == 0:
            continue
        pick = sorted(set(int(ci[k]) for k in (0, len(ci) // 5, len(ci) // 2, (4 * len(ci)) // 5, len(ci) - 1)))

        def agree(name, fn, expect, mask=None):
            rep.transitions += 1
            try:
                r = np.asarray(fn())
            except Exception as ex:
                rep.violation("batch", label, "is_inside", "raised:" + type(ex).__name__ + ":" + name, case, "%s raised %r" % (name, ex))
                return
            expect = np.asarray(expect)
            m = mask if mask is not None else np.ones(len(expect), bool)
            if r.shape == expect.shape and np.array_equal(r[m], expect[m]):
                rep.ok(name)
            else:
                rep.violation("batch", label, "is_inside", "batch-differs:" + name, case, "%s gives %s, full batch gave %s" % (name, r.tolist()[:10], expect.tolist()[:10]))

        for i in pick:
            agree("single(3,)", lambda i=i: obj.is_inside(W[i].copy()), got[i : i + 1])
        agree("reversed", lambda: obj.is_inside(W[::-1].copy()), got[::-1], clear[::-1])
        # one large batch (an implementation that works block-wise must still answer element by element)
        if len(W) and (len(W) + len(case.get("poly", [])) + int(W[0, 0] * 8)) % 4 == 0:
            reps_big = (6007 + len(W) - 1) // len(W)
            big = np.vstack([W] * reps_big)[:6007]
            agree("batch-6007", lambda: obj.is_inside(big.copy()), np.concatenate([got] * reps_big)[:6007], np.concatenate([clear] * reps_big)[:6007])
        if planar_input and cls is not None:
            # z = 0 plane: (N,2) points are accepted and mean (x, y, 0)
            agree("(N,2)-input", lambda: obj.is_inside(W[:, :2].copy()), got, clear)
            agree("single(2,)", lambda: obj.is_inside(W[pick[0], :2].copy()), got[pick[0] : pick[0] + 1])
        # input forms: whole-number points given as an integer array / nested lists of Python ints must be answered like
        # the same points as floats (no margin needed: the numbers are identical)
        zc = float(W[0, 2])
        if zc.is_integer() and (cls is None or planar_input):
            lo, hi = np.floor(W[:, :2].min(0)).astype(int), np.ceil(W[:, :2].max(0)).astype(int)
            if np.all(hi - lo <= 64):
                Wi = np.array([[x, y, int(zc)] for x in range(lo[0], hi[0] + 1) for y in range(lo[1], hi[1] + 1)], dtype=np.int64)
                reff = np.asarray(obj.is_inside(Wi.astype(float)))
                agree("int64-points", lambda: obj.is_inside(Wi.copy()), reff)
                agree("nested-list-of-int", lambda: obj.is_inside(Wi.tolist()), reff)
                agree("int32-points", lambda: obj.is_inside(Wi.astype(np.int32)), reff)
    rep.sample({"case": case, "points": int(len(W)), "inside": int(want.sum())})
    return rep
