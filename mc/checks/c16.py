"""C16 - queries are free of side effects.  Engine E1 over ordered pairs of queries."""
import copy
import inspect
import os
import tempfile
import warnings

import numpy as np

from .. import alphabet as A
from .. import e1
from ..common import Report

PROPERTY = "C16"
ENGINE = "E1"
TECHNIQUE = "explicit-state exploration of every ordered pair of reflected queries per class, plus cross-object histories replayed in fresh interpreters"
RULE = (
    "for one object of each of the ten shape classes (general position, away from the origin) the query alphabet is every public "
    "property and every query/export method found by reflection (is_inside, compute_form_factor_amplitude, distance_to_surface, "
    "get_face_area in 3 call forms, get_dihedral, to_json, to_hoomd, gsd_shape_spec, repr/str, save x 7 formats, coxeter.io.to_* x 7); "
    "depth-2 exploration = every ordered pair (q1, q2) including (q, q).  After each step: the instance dictionary is bit-identical, or "
    "- if a private memo field appeared - every public observable (evaluated on a clone) is bit-identical, or within 1e-13 D for the "
    "operations that move the shape and move it back; argument arrays are bit-identical; every ndarray handed out by q1 still holds "
    "what it held; q2's answer equals q2 on a fresh object and a repeated q2.  Cross-object histories: for each class, in three fresh "
    "interpreters, every observable and query answer of an object Y is bit-identical whether Y is used alone, after a twin with the "
    "same combinatorics but different geometry was used (keys forced to collide), after another object of its class was built/queried/"
    "mutated, or after objects of all ten classes were (no hidden shared state).  Also: xy-plane start states with -z normal (clockwise input) for ConvexPolygon / ConvexSpheropolygon.  non-trivial = ordered pair "
    "with q1 != q2."
)
ASSUMPTIONS = ["plot/to_plato_scene need optional packages and are not in the alphabet"]
BOUNDS = {"quick": {"depth": 2, "classes": 10}, "thorough": {"depth": 2, "classes": 10, "bases": "2 per class"}}
CHUNK = 1
MUTATORS = {"diagonalize_inertia", "merge_faces", "sort_faces", "plot", "to_plato_scene"}
MOVERS = {"to_hoomd", "inertia_tensor"}

BASES_Q = {
    "ConvexPolyhedron": "ConvexPolyhedron/chiral", "Polyhedron": "Polyhedron/tri", "ConvexSpheropolyhedron": "ConvexSpheropolyhedron/chiral",
    "Polygon": "Polygon/chiral", "ConvexPolygon": "ConvexPolygon/chiral", "ConvexSpheropolygon": "ConvexSpheropolygon/xy",
    "Circle": "curved:0", "Ellipse": "curved:2", "Sphere": "curved:4", "Ellipsoid": "curved:6",
}
# xy-plane shapes whose stored normal is -z (clockwise input): distance_to_surface has a separate branch for them
BASES_X = {"ConvexPolygon": "ConvexPolygon/down", "ConvexSpheropolygon": "ConvexSpheropolygon/down", "Polyhedron": "Polyhedron/scrambled"}  # + faces not yet sorted: a query must not sort them
BASES_T = {
    "ConvexPolyhedron": "ConvexPolyhedron/lattice", "Polyhedron": "Polyhedron/lsolid", "ConvexSpheropolyhedron": "ConvexSpheropolyhedron/lattice",
    "Polygon": "Polygon/cw", "ConvexPolygon": "ConvexPolygon/xy", "ConvexSpheropolygon": "ConvexSpheropolygon/chiral",
    "Circle": "curved:1", "Ellipse": "curved:3", "Sphere": "curved:5", "Ellipsoid": "curved:7",
}


def make(name):
    if name.startswith("curved:"):
        from .c08 import make_curved

        return make_curved(int(name.split(":")[1]))
    return e1.make_base(name)


def query_alphabet(obj):
    """[(name, fn(obj, args), args factory)] by reflection."""
    cls = type(obj)
    qs = []
    for name, m in e1.public_properties(cls):
        if name in ("bounding_sphere", "bounding_circle", "insphere_from_center", "circumsphere_from_center", "incircle_from_center"):
            continue
        try:
            with warnings.catch_warnings():
                warnings.simplefilter("ignore")
                getattr(copy.deepcopy(obj), name)
        except NotImplementedError:
            continue
        except Exception:
            pass
        qs.append(("prop:" + name, (lambda o, a, name=name: getattr(o, name)), lambda: ()))
    pr = e1.margin_filter(obj, e1.probes_for(obj)) if hasattr(obj, "vertices") else None
    cen = np.asarray(obj.vertices, float).mean(0) if hasattr(obj, "vertices") else np.asarray(obj.centroid, float)
    pts = pr["points"] if pr is not None else cen + np.array([[0, 0, 0], [0.1, 0.2, 0], [50, 0, 0], [-0.3, 0.1, 0.0]])
    qv = np.array([[0.0, 0, 0], [1.0, 0, 0], [0, 0.7, 0], [0.3, -0.2, 0.9], [-1.1, 0.4, 0.2], [2.0, 2, -1]])
    recipes = {
        "is_inside": [lambda: (np.array(pts, float),)],
        "compute_form_factor_amplitude": [lambda: (qv.copy(),)],
        "distance_to_surface": [lambda: (np.linspace(-7.0, 7.0, 29),)],
        "get_face_area": [lambda: (), lambda: (0,), lambda: ([0, 1],)],
        "get_dihedral": [lambda: (0, int(np.asarray(obj.neighbors[0]).reshape(-1)[0]))],
        "to_json": [lambda: (["centroid", "gsd_shape_spec"],)],
        "to_hoomd": [lambda: ()],
        "__repr__": [lambda: ()],
        "__str__": [lambda: ()],
    }
    for name, m in inspect.getmembers(cls, predicate=callable):
        if name in recipes:
            for k, fac in enumerate(recipes[name]):
                try:
                    a = fac()
                    with warnings.catch_warnings():
                        warnings.simplefilter("ignore")
                        getattr(copy.deepcopy(obj), name)(*a)
                except NotImplementedError:
                    continue
                except Exception:
                    pass
                qs.append(("call:%s#%d" % (name, k), (lambda o, a, name=name: getattr(o, name)(*a)), fac))
        elif name == "save":
            for fmt in ("OBJ", "OFF", "STL", "PLY", "VTK", "X3D", "HTML"):
                qs.append(("call:save(%s)" % fmt, (lambda o, a, fmt=fmt: _save(o, fmt)), lambda: ()))
        elif not name.startswith("_") and name not in MUTATORS and name not in recipes:
            # a public method without a recipe: try without arguments
            try:
                with warnings.catch_warnings():
                    warnings.simplefilter("ignore")
                    getattr(copy.deepcopy(obj), name)()
                qs.append(("call:" + name, (lambda o, a, name=name: getattr(o, name)()), lambda: ()))
            except Exception:
                pass
    if hasattr(obj, "faces") and not hasattr(obj, "normal") and hasattr(obj, "save"):
        for fn in ("to_obj", "to_off", "to_stl", "to_ply", "to_vtk", "to_x3d", "to_html"):
            qs.append(("io:" + fn, (lambda o, a, fn=fn: _io(o, fn)), lambda: ()))
    return qs


def _save(o, fmt):
    d = tempfile.mkdtemp(prefix="c16_")
    p = os.path.join(d, "out." + fmt.lower())
    try:
        o.save(fmt, p)
        with open(p, "rb") as f:
            return f.read().decode("utf8", "replace")
    finally:
        try:
            os.remove(p)
        except OSError:
            pass
        os.rmdir(d)


def _io(o, fn):
    import coxeter.io

    d = tempfile.mkdtemp(prefix="c16_")
    p = os.path.join(d, "out.txt")
    try:
        getattr(coxeter.io, fn)(o, p)
        with open(p, "rb") as f:
            return f.read().decode("utf8", "replace")
    finally:
        try:
            os.remove(p)
        except OSError:
            pass
        os.rmdir(d)


def cases(tier):
    from ..common import bind_repo

    bind_repo()
    out = [{"xobj": cls} for cls in BASES_T]
    sets = [BASES_Q, BASES_X] + ([BASES_T] if tier == "thorough" else [])
    for bs in sets:
        for cls, base in bs.items():
            n = len(query_alphabet(make(base)))
            for i in range(n):
                out.append({"base": base, "q1": i})
    return out


def arrays_in(x, out, depth=0):
    if isinstance(x, np.ndarray):
        out.append(x)
    elif isinstance(x, (list, tuple)) and depth < 4:
        for y in x:
            arrays_in(y, out, depth + 1)
    elif isinstance(x, dict) and depth < 4:
        for y in x.values():
            arrays_in(y, out, depth + 1)
    elif hasattr(x, "__dict__") and depth < 3 and type(x).__module__.startswith("coxeter"):
        arrays_in(vars(x), out, depth + 1)


def run_query(obj, q):
    """-> (status, result, args-intact?)"""
    name, fn, fac = q
    args = fac()
    keep = copy.deepcopy(args)
    e1._reseed()
    try:
        with warnings.catch_warnings():
            warnings.simplefilter("ignore")
            r = fn(obj, args)
        st = "val"
    except Exception as ex:
        r, st = type(ex).__name__, "exc"
    intact = True
    for a, k in zip(args, keep):
        if isinstance(a, np.ndarray) and not (a.shape == k.shape and np.array_equal(a, k)):
            intact = False
        elif not isinstance(a, np.ndarray) and a != k:
            intact = False
    return st, r, intact


def same(a, b, rtol, floor):
    (sa, ra), (sb, rb) = a, b
    if sa != sb:
        return False, "%s vs %s" % (sa, sb)
    if sa == "exc":
        return ra == rb, "%s vs %s" % (ra, rb)
    ra, rb = e1._plain(ra), e1._plain(rb)
    if isinstance(ra, str) and isinstance(rb, str):
        if ra == rb:
            return True, ""
        if rtol > 0:
            return _text_close(ra, rb, rtol, floor), "texts differ"
        return False, "texts differ"
    try:
        return e1._cmp(ra, rb, rtol, floor)
    except Exception as ex:
        return (repr(ra) == repr(rb)), "incomparable results (%s)" % type(ex).__name__


def _text_close(a, b, rtol, floor):
    import re

    ta, tb = re.split(r"([-+]?\d+\.?\d*(?:[eE][-+]?\d+)?)", a), re.split(r"([-+]?\d+\.?\d*(?:[eE][-+]?\d+)?)", b)
    if len(ta) != len(tb):
        return False
    for x, y in zip(ta, tb):
        if x == y:
            continue
        try:
            fx, fy = float(x), float(y)
        except ValueError:
            return False
        if abs(fx - fy) > rtol * max(abs(fx), abs(fy)) + floor:
            return False
    return True


def run_xobj(case):
    """Three fresh interpreters: Y alone, Y after another object of the same class was built, queried and
    mutated, Y after objects of every class were.  Every observable and query answer of Y must be bit-identical."""
    import json
    import subprocess
    import sys

    rep = Report()
    cls = case["xobj"]
    outs = {}
    env = dict(os.environ)
    env["PYTHONHASHSEED"] = "0"
    root = os.path.dirname(os.path.dirname(os.path.dirname(os.path.abspath(__file__))))
    for mode in ("alone", "after-twin", "after-same", "after-all"):
        p = subprocess.run([sys.executable, "-W", "ignore", "-m", "mc.xobj", cls, mode], cwd=root, env=env, capture_output=True, text=True, timeout=900)
        rep.transitions += 1
        rep.states += 1
        if p.returncode != 0:
            rep.violation("harness", cls, "xobj", "probe-failed", case, "cross-object probe (%s) exited %d: %s" % (mode, p.returncode, p.stderr[-400:]))
            return rep
        outs[mode] = json.loads(p.stdout)
    rep.traces += 4
    rep.nontrivial += 3
    ref = outs["alone"]
    for mode in ("after-twin", "after-same", "after-all"):
        diff = [k for k in sorted(set(ref) | set(outs[mode])) if ref.get(k) != outs[mode].get(k)]
        if diff:
            rep.violation("side-effect", cls, diff[0], "depends-on-other-objects:" + mode, case, "a fresh %s answers %s differently after other objects were used (%s): %d observables differ, e.g. %s: %s vs %s" % (cls, diff[0], mode, len(diff), diff[0], str(outs[mode].get(diff[0]))[:120], str(ref.get(diff[0]))[:120]))
        else:
            rep.ok("independent-of-other-objects:" + mode, len(ref))
    return rep


def run_case(case):
    if "xobj" in case:
        return run_xobj(case)
    rep = Report()
    with warnings.catch_warnings():
        warnings.simplefilter("ignore")
        proto = make(case["base"])
        cls = type(proto).__name__
        Q = query_alphabet(proto)
        q1 = Q[case["q1"]]
        gv = e1.defining_vertices(proto) if hasattr(proto, "vertices") else np.asarray(proto.centroid, float).reshape(1, 3)
        L = float(np.linalg.norm(gv.max(0) - gv.min(0))) or 1.0
        D = L + float(np.linalg.norm(gv.mean(0)))
        obs0 = e1.observe(copy.deepcopy(proto), None)
        # reference answers of every query on fresh objects
        fresh = {}
        for q in Q:
            st, r, _ = run_query(copy.deepcopy(proto), q)
            fresh[q[0]] = (st, copy.deepcopy(r))

        def check_state(obj, state0, mover, who, qn):
            """state unchanged after the queries named in `who`"""
            rep.transitions += 1
            if e1.exact_state(obj) == state0:
                rep.ok("instance-dictionary-bit-identical")
                return True
            obs = e1.observe(copy.deepcopy(obj), None)
            bad = []
            for k in sorted(set(obs) | set(obs0)):
                if k not in obs or k not in obs0:
                    bad.append((k, "present on one side only"))
                    continue
                ok, d = same(obs[k], obs0[k], 0.0, (1e-13 * D if mover else 0.0))
                if not ok:
                    # arccos near +-1 (coplanar neighbours) turns last-digit rounding of a mover into ~sqrt(eps)
                    fl = 2e-6 if k.startswith("get_dihedral") else 1e-13 * D
                    ok2, _ = same(obs[k], obs0[k], 1e-12, fl) if mover else (False, "")
                    if not ok2:
                        bad.append((k, d))
            if bad:
                k, d = bad[0]
                rep.violation("side-effect", cls, qn, "observable-changed:" + k, dict(case, queries=who), "after %s the observable %s changed: %s" % (who, k, d))
                return False
            rep.ok("only-memo-fields-or-rounding")
            return True

        obj = copy.deepcopy(proto)
        state0 = e1.exact_state(obj)
        st1, r1, intact = run_query(obj, q1)
        rep.states += 1
        if not intact:
            rep.violation("side-effect", cls, q1[0], "argument-mutated", dict(case, queries=[q1[0]]), "%s modified an argument passed by the caller" % q1[0])
        mover1 = any(m in q1[0] for m in MOVERS)
        ok1 = check_state(obj, state0, mover1, [q1[0]], q1[0])
        ok, d = same((st1, r1), fresh[q1[0]], 0.0, 0.0)
        for q2 in Q:
            # the pair is replayed on a fresh object so that arrays handed out by q1 really alias
            # whatever the object keeps using
            obj2 = copy.deepcopy(proto)
            st1b, r1b, _ = run_query(obj2, q1)
            handed2 = []
            arrays_in(r1b, handed2)
            handed2 = [(a, a.copy()) for a in handed2]
            s_before = e1.exact_state(obj2)
            st2, r2, intact2 = run_query(obj2, q2)
            rep.states += 1
            rep.traces += 1
            if q2[0] != q1[0]:
                rep.nontrivial += 1
            who = [q1[0], q2[0]]
            pc = dict(case, queries=who)  # replayable: run_case reads base/q1, "queries" documents the pair
            if not intact2:
                rep.violation("side-effect", cls, q2[0], "argument-mutated", pc, "%s modified an argument passed by the caller" % q2[0])
            mover = mover1 or any(m in q2[0] for m in MOVERS)
            check_state(obj2, state0, mover, who, q2[0])
            # arrays handed out by q1 still hold what they held
            rep.transitions += 1
            spoiled = False
            for a, keep in handed2:
                if a.shape != keep.shape or not np.array_equal(a, keep):
                    tol = 1e-13 * D if (mover and a.dtype.kind == "f") else 0.0
                    if a.shape != keep.shape or a.dtype.kind != "f" or np.max(np.abs(a - keep)) > tol:
                        spoiled = True
                        rep.violation("side-effect", cls, q2[0], "handed-out-array-altered", pc, "an array returned by %s was altered by %s (max change %.3g)" % (q1[0], q2[0], float(np.max(np.abs(a - keep))) if a.shape == keep.shape and a.dtype.kind == "f" else float("nan")))
                        break
            if not spoiled:
                rep.ok("handed-out-arrays-intact")
            # q2's answer equals q2 on a fresh object (and, for q2 == q1, the repeated answer)
            rep.transitions += 1
            rt, fl = (1e-9, 1e-12 * D) if mover else (0.0, 0.0)
            ok, d = same((st2, r2), fresh[q2[0]], rt, fl)
            if not ok:
                rep.violation("side-effect", cls, q2[0], "answer-depends-on-history", pc, "%s after %s answers differently from a fresh object: %s" % (q2[0], q1[0], d))
            else:
                rep.ok("answer-equals-fresh")
        if case["q1"] == 0:
            rep.sample({"base": case["base"], "class": cls, "queries": [q[0] for q in Q]})
    return rep
