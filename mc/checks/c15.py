"""C15 - constructors accept valid geometry and reject invalid geometry; they never store
or modify the caller's arrays."""
import itertools
import math
from fractions import Fraction as Fr

import numpy as np

from .. import alphabet as A
from .. import exact as X
from ..common import Report
from .c04 import PL3, place

PROPERTY = "C15"
ENGINE = "E2"
TECHNIQUE = "bounded-exhaustive enumeration of vertex lists classified exactly as valid/invalid (all orders, both orientations, off-plane, duplicates) plus aliasing probes"
RULE = (
    "cases, each classified by an exact oracle as clearly valid or clearly invalid: Polygon over P2 vertex cycles - simple (accept, both "
    "orientations) / properly crossing (ValueError) -, duplicated vertex, fewer than 3 vertices, one vertex lifted off the plane by 1% "
    "or 5% of the size; ConvexPolygon / ConvexSpheropolygon / ConvexPolyhedron over convex lattice sets in every vertex order (all k! "
    "for k<=5) - accept, and polygon vertices come out counter-clockwise about the normal - and the same sets plus one point of the "
    "exact interior at depth >= 1e-3 L (ValueError); circles/spheres/ellipses/ellipsoids with a zero/negative/NaN axis and "
    "spheropolytopes with a negative radius (ValueError); for every class an aliasing probe: every array argument is bit-identical "
    "after construction and shares no memory with anything reachable from the new object.  All x placements up to 10 L from the "
    "origin (invalid convex-polygon sets also 300 L, 5000 L and 2^24 L away).  Also: convex polygons with a prescribed (non-unit) normal on either side in every input order; invalid sets in every order.  non-trivial = invalid input or non-identity order/placement."
)
ASSUMPTIONS = ["degenerate inputs on the decision boundary (collinear neighbours, touching edges, coplanar extra points) are excluded by the exact classifier"]
BOUNDS = {"quick": {"polygon": "P2(3) all; simple/crossing P2(4) every 6th, P2(5) every 60th", "convex": "CP2(<=5) every 5th x all orders; S3(4) every 6th, S3(5) every 30th x all orders"}, "thorough": {"polygon": "P2(4) every 2nd, P2(5) every 10th", "convex": "CP2 all; S3(4) all, S3(5) every 5th"}}
CHUNK = 20


def cases(tier):
    out = []
    q = tier == "quick"
    k = 0
    for n, step in ((3, 1), (4, 6 if q else 2), (5, 60 if q else 10)):
        for i, c in enumerate(A.p2_thin(n, 4)):
            if i % step == 0:
                out.append({"t": "polygon-simple", "poly": [list(p) for p in c], "pl": PL3[k % 8]})
                k += 1
        for i, c in enumerate(A.p2_crossing(n, 4)):
            if i % (step * 2) == 0:
                out.append({"t": "polygon-crossing", "poly": [list(p) for p in c], "pl": PL3[k % 8]})
                k += 1
    for i, c in enumerate(A.p2_thin(4, 4)):
        if i % (40 if q else 10) == 0:
            for off in (0.01, 0.05):
                for which in range(4):
                    out.append({"t": "polygon-offplane", "poly": [list(p) for p in c], "which": which, "off": off, "pl": PL3[k % 8]})
                    k += 1
            out.append({"t": "polygon-duplicate", "poly": [list(p) for p in c], "pl": PL3[k % 8]})
            out.append({"t": "polygon-too-few", "poly": [list(p) for p in c][:2], "pl": PL3[k % 8]})
            k += 1
    for i, c in enumerate(A.cp2(5, 4)):
        if i % (5 if q else 1):
            continue
        n = len(c)
        for o in itertools.permutations(range(n)):
            if o[0] != 0 and q and n == 5:
                continue
            for cls in ("ConvexPolygon", "ConvexSpheropolygon"):
                out.append({"t": "convex2-valid", "cls": cls, "poly": [list(p) for p in c], "order": list(o), "pl": PL3[k % 8]})
                if n <= 4 or o[1] in (1, n - 1):
                    # a prescribed normal (not of unit length) on either side: the vertices must come out
                    # counter-clockwise about THAT normal whatever the input order
                    out.append({"t": "convex2-valid", "cls": cls, "poly": [list(p) for p in c], "order": list(o), "pl": PL3[k % 8], "normal": "+" if (k + len(cls)) % 2 else "-"})
            k += 1
        for kind in ("centroid", "near-edge"):
            for cls in ("ConvexPolygon", "ConvexSpheropolygon"):
                for pos in (0, n // 2, n):
                    out.append({"t": "convex2-interior", "cls": cls, "poly": [list(p) for p in c], "kind": kind, "pos": pos, "pl": PL3[k % 8]})
            k += 1
        # the same invalid sets far from the origin (wave-7 seed W7_C15a: a convexity tolerance proportional to the
        # coordinate magnitude instead of the size accepts an interior point once offset/size is large)
        for j, far in enumerate((300, 5000, 2**24)):
            for kind in ("centroid", "near-edge"):
                cls = ("ConvexPolygon", "ConvexSpheropolygon")[(i + j + len(kind)) % 2]
                out.append({"t": "convex2-interior", "cls": cls, "poly": [list(p) for p in c], "kind": kind, "pos": (i + j) % (n + 1), "pl": PL3[(k + j) % 8], "far": far})
        # the invalid set in EVERY order (a cycle that winds twice turns the same way at every vertex)
        if n <= 4 and (not q or i % 10 == 0):
            for o in itertools.permutations(range(n + 1)):
                out.append({"t": "convex2-interior", "cls": "ConvexPolygon" if (sum(o[:2]) % 2 == 0) else "ConvexSpheropolygon", "poly": [list(p) for p in c], "kind": "centroid", "pos": n, "order": list(o), "pl": PL3[k % 8]})
                k += 1
    pq = A.placements_quick()
    for kk, step in ((4, 6 if q else 1), (5, 30 if q else 5)):
        for i, S in enumerate(A.s3(kk)):
            if i % step:
                continue
            for o in itertools.permutations(range(kk)):
                if q and kk == 5 and o[0] != 0:
                    continue
                out.append({"t": "convex3-valid", "pts": S, "order": list(o), "pl": pq[k % 8]})
                k += 1
            for kind in ("mean", "near-face"):
                for pos in (0, kk):
                    for cls in ("ConvexPolyhedron", "ConvexSpheropolyhedron"):
                        out.append({"t": "convex3-interior", "cls": cls, "pts": S, "kind": kind, "pos": pos, "pl": pq[k % 8]})
                k += 1
            if kk == 4 and i % (60 if q else 12) == 0:
                for o in itertools.permutations(range(5)):
                    out.append({"t": "convex3-interior", "cls": "ConvexPolyhedron", "pts": S, "kind": "mean", "pos": kk, "order": list(o), "pl": pq[k % 8]})
                    k += 1
    for cls, nax in (("Circle", 1), ("Sphere", 1), ("Ellipse", 2), ("Ellipsoid", 3)):
        for bad in (0.0, -1.0, -1e-12, float("nan")):
            for where in range(nax):
                out.append({"t": "curved-bad-axis", "cls": cls, "bad": repr(bad), "where": where})
    # every sign pattern with at least one non-positive axis (a test on the product of the axes misses two negatives)
    for cls, nax in (("Ellipse", 2), ("Ellipsoid", 3)):
        for signs in itertools.product((1, -1, 0), repeat=nax):
            if any(x <= 0 for x in signs):
                out.append({"t": "curved-bad-axes", "cls": cls, "signs": list(signs)})
    for cls in ("ConvexSpheropolygon", "ConvexSpheropolyhedron"):
        for bad in (-1.0, -1e-12, float("nan")):
            out.append({"t": "sphero-bad-radius", "cls": cls, "bad": repr(bad)})
        out.append({"t": "sphero-zero-radius", "cls": cls})
    for cls in ("Polygon", "ConvexPolygon", "ConvexSpheropolygon", "Polyhedron", "ConvexPolyhedron", "ConvexSpheropolyhedron", "Circle", "Ellipse", "Sphere", "Ellipsoid"):
        for j in range(2):
            out.append({"t": "aliasing", "cls": cls, "variant": j})
    return out


def expect_value_error(rep, label, what, case, fn):
    rep.transitions += 1
    try:
        fn()
    except ValueError:
        rep.ok("rejected:" + what)
        return
    except Exception as ex:
        rep.violation("constructor", label, "__init__", "wrong-exception:" + type(ex).__name__ + ":" + what, case, "%s: %s input raised %s(%s) instead of ValueError" % (label, what, type(ex).__name__, str(ex)[:120]))
        return
    rep.violation("constructor", label, "__init__", "accepted-invalid:" + what, case, "%s accepted a clearly invalid input (%s)" % (label, what))


def reachable_arrays(obj, depth=0, seen=None):
    seen = seen if seen is not None else set()
    out = []
    if id(obj) in seen or depth > 5:
        return out
    seen.add(id(obj))
    if isinstance(obj, np.ndarray):
        out.append(obj)
    elif isinstance(obj, (list, tuple)):
        for x in obj:
            out += reachable_arrays(x, depth + 1, seen)
    elif isinstance(obj, dict):
        for x in obj.values():
            out += reachable_arrays(x, depth + 1, seen)
    elif hasattr(obj, "__dict__"):
        out += reachable_arrays(vars(obj), depth + 1, seen)
    return out


def run_case(case):
    from coxeter import shapes as S

    rep = Report()
    t = case["t"]
    rep.states += 1
    rep.traces += 1
    if t != "polygon-simple" or case.get("pl") != PL3[0]:
        rep.nontrivial += 1
    if t.startswith("polygon"):
        poly = [tuple(p) for p in case["poly"]]
        if t == "polygon-too-few":
            F = np.array([[float(x), float(y), 0.0] for x, y in poly]) + np.array([1.0, 2.0, 3.0])
            expect_value_error(rep, "Polygon", "fewer-than-3-vertices", case, lambda: S.Polygon(F.copy()))
            expect_value_error(rep, "ConvexPolygon", "fewer-than-3-vertices", case, lambda: S.ConvexPolygon(F.copy()))
            return rep
        F, s, R, tt = place(case, poly)
        L = float(np.max(np.linalg.norm(F[:, None] - F[None], axis=-1)))
        if t == "polygon-simple":
            rep.transitions += 1
            try:
                p = S.Polygon(F.copy())
                if p.vertices.shape == F.shape and np.array_equal(np.asarray(p.vertices), F):
                    rep.ok("accepted:simple-polygon")
                else:
                    rep.violation("constructor", "Polygon", "__init__", "vertices-changed", case, "a simple polygon's vertices were reordered or changed by the constructor")
            except Exception as ex:
                rep.violation("constructor", "Polygon", "__init__", "rejected-valid:" + type(ex).__name__, case, "simple planar polygon rejected: %r" % (ex,))
        elif t == "polygon-crossing":
            expect_value_error(rep, "Polygon", "self-intersecting-cycle", case, lambda: S.Polygon(F.copy()))
            nrm = R @ np.array([0.0, 0.0, 1.0])
            expect_value_error(rep, "Polygon", "self-intersecting-cycle(normal given)", case, lambda: S.Polygon(F.copy(), normal=nrm))
        elif t == "polygon-duplicate":
            G = np.vstack([F, F[1:2]])
            expect_value_error(rep, "Polygon", "duplicate-vertex", case, lambda: S.Polygon(G.copy()))
            G2 = np.vstack([F[:2], F[1:2], F[2:]])
            expect_value_error(rep, "Polygon", "duplicate-vertex(adjacent)", case, lambda: S.Polygon(G2.copy()))
        elif t == "polygon-offplane":
            nrm = R @ np.array([0.0, 0.0, 1.0])
            G = F.copy()
            G[case["which"]] += case["off"] * L * nrm
            expect_value_error(rep, "Polygon", "non-planar-%g" % case["off"], case, lambda: S.Polygon(G.copy()))
            # the same with the normal of the first three (in-plane or lifted) vertices supplied explicitly, either sign
            n3 = np.cross(G[2] - G[1], G[0] - G[1])
            for sg in (1.0, -2.5):
                expect_value_error(rep, "Polygon", "non-planar-%g(normal given)" % case["off"], case, lambda sg=sg: S.Polygon(G.copy(), normal=sg * n3))
            ccw = poly if X.shoelace2(poly) > 0 else poly[::-1]
            if X.is_convex_ccw(ccw):
                expect_value_error(rep, "ConvexPolygon", "non-planar-%g" % case["off"], case, lambda: S.ConvexPolygon(G.copy()))
        return rep
    if t.startswith("convex2"):
        poly = [tuple(p) for p in case["poly"]]
        n = len(poly)
        cls = getattr(S, case["cls"])
        args = (0.3,) if case["cls"] == "ConvexSpheropolygon" else ()
        if t == "convex2-valid":
            o = case["order"]
            pts = [poly[i] for i in o]
            F, s, R, tt = place(case, pts)
            # the default normal comes from the first three supplied vertices
            o1 = X.sign(X._orient2(pts[0], pts[1], pts[2]))
            rep.transitions += 1
            kwn = {}
            if case.get("normal"):
                o1 = 1 if case["normal"] == "+" else -1
                kwn["normal"] = R @ np.array([0.0, 0.0, 2.5 * o1])
            try:
                obj = cls(F.copy(), *args, **kwn)
            except Exception as ex:
                rep.violation("constructor", case["cls"], "__init__", "rejected-valid:" + type(ex).__name__, case, "%s rejected a set in convex position supplied in order %s: %r" % (case["cls"], o, ex))
                return rep
            V = np.asarray(obj.vertices, float)
            nrm = np.asarray(obj.normal, float) if hasattr(obj, "normal") else np.asarray(obj.polygon.normal, float)
            want_n = R @ np.array([0.0, 0.0, float(o1)])
            # same vertex set
            key = lambda a: sorted(map(tuple, np.round(a / (np.abs(F).max() + 1e-300), 9).tolist()))  # noqa: E731
            if key(V) != key(F):
                rep.violation("constructor", case["cls"], "vertices", "vertex-set-changed", case, "stored vertices are not the supplied ones")
                return rep
            if np.max(np.abs(nrm - want_n)) > 1e-9:
                rep.violation("constructor", case["cls"], "normal", "mismatch", case, "normal %s, expected %s" % (nrm.tolist(), want_n.tolist()))
                return rep
            # counter-clockwise about the normal: signed area of the stored cycle about the normal is positive
            ar = np.zeros(3)
            for i in range(n):
                ar += np.cross(V[i] - V[0], V[(i + 1) % n] - V[0])
            cyc_ok = float(ar @ nrm) > 0
            # and it is a boundary cycle of the polygon (consecutive hull vertices)
            idx = [int(np.argmin(np.linalg.norm(F - v, axis=1))) for v in V]
            orig = [o[i] for i in idx]  # indices into the ccw lattice polygon
            steps = {(orig[(i + 1) % n] - orig[i]) % n for i in range(n)}
            if cyc_ok and steps in ({1}, {n - 1}):
                rep.ok("accepted:ordered-ccw")
            else:
                rep.violation("constructor", case["cls"], "vertices", "not-ccw-boundary-cycle", case, "stored vertex order %s (as indices of the convex polygon) is not its counter-clockwise boundary cycle about the normal" % (orig,))
            return rep
        # interior point
        A2, Sx, Sy, *_ = X.polygon_moments(poly)
        c = (Sx / A2, Sy / A2)
        Llat = max(math.dist(a, b) for a in poly for b in poly)
        if case["kind"] == "centroid":
            extra = (float(c[0]), float(c[1]))
        else:
            a, b = poly[0], poly[1]
            mid = ((a[0] + b[0]) / 2.0, (a[1] + b[1]) / 2.0)
            e = (b[0] - a[0], b[1] - a[1])
            ln = math.hypot(*e)
            inward = (-e[1] / ln, e[0] / ln)  # ccw polygon: left of the edge is inside
            extra = (mid[0] + 2e-3 * Llat * inward[0], mid[1] + 2e-3 * Llat * inward[1])
        pts = list(poly)
        pts.insert(case["pos"], extra)
        if case.get("order"):
            pts = [pts[i] for i in case["order"]]
        F, s, R, tt = place(case, pts)
        if case.get("far"):
            F = F + float(case["far"]) * Llat * s * np.array([3.0, -2.0, 5.0]) / math.sqrt(38.0)
        expect_value_error(rep, case["cls"], "interior-point-" + case["kind"], case, lambda: cls(F.copy(), *args))
        return rep
    if t.startswith("convex3"):
        P = [tuple(p) for p in case["pts"]]
        kk = len(P)
        if t == "convex3-valid":
            pts = [P[i] for i in case["order"]]
            F = A.apply_placement(case["pl"], np.array(pts, float))
            for cname, args in (("ConvexPolyhedron", ()), ("ConvexSpheropolyhedron", (0.2,))):
                rep.transitions += 1
                try:
                    obj = getattr(S, cname)(F.copy(), *args)
                    if np.array_equal(np.asarray(obj.vertices), F):
                        rep.ok("accepted:convex-position")
                    else:
                        rep.violation("constructor", cname, "vertices", "vertices-changed", case, "stored vertices differ from the supplied ones")
                except Exception as ex:
                    rep.violation("constructor", cname, "__init__", "rejected-valid:" + type(ex).__name__, case, "%s rejected a set in convex position (order %s): %r" % (cname, case["order"], ex))
            return rep
        facets = X.hull_facets(P)
        base = np.array(P, float)
        Llat = float(np.max(np.linalg.norm(base[:, None] - base[None], axis=-1)))
        mean = base.mean(0)
        if case["kind"] == "mean":
            extra = mean
        else:
            nr, d, on, ext = facets[0]
            fc = base[list(ext)].mean(0)
            nn = np.array([float(x) for x in nr])
            nn /= np.linalg.norm(nn)
            extra = fc - 2e-3 * Llat * nn
        # exact-ish check of the depth (float, far from the margin)
        depth = min((float(d) - float(np.dot([float(x) for x in nr], extra))) / math.sqrt(float(X.dot(nr, nr))) for nr, d, _, _ in facets)
        if depth < 1e-3 * Llat:
            rep.skip("interior-point-too-shallow")
            return rep
        pts = np.vstack([base[: case["pos"]], extra[None], base[case["pos"] :]])
        if case.get("order"):
            pts = pts[case["order"]]
        F = A.apply_placement(case["pl"], pts)
        args = (0.2,) if case["cls"] == "ConvexSpheropolyhedron" else ()
        expect_value_error(rep, case["cls"], "interior-point-" + case["kind"], case, lambda: getattr(S, case["cls"])(F.copy(), *args))
        return rep
    if t == "curved-bad-axis":
        nax = {"Circle": 1, "Sphere": 1, "Ellipse": 2, "Ellipsoid": 3}[case["cls"]]
        ax = [1.5] * nax
        ax[case["where"]] = float(case["bad"])
        expect_value_error(rep, case["cls"], "non-positive-axis(%s)" % case["bad"], case, lambda: getattr(S, case["cls"])(*ax))
        expect_value_error(rep, case["cls"], "non-positive-axis(%s),centre" % case["bad"], case, lambda: getattr(S, case["cls"])(*ax, (1.0, 2.0, 3.0)))
        return rep
    if t == "curved-bad-axes":
        ax = [1.5 * x * (k + 1) for k, x in enumerate(case["signs"])]
        expect_value_error(rep, case["cls"], "non-positive-axes%s" % (case["signs"],), case, lambda: getattr(S, case["cls"])(*ax))
        return rep
    if t in ("sphero-bad-radius", "sphero-zero-radius"):
        if case["cls"] == "ConvexSpheropolygon":
            V = np.array([[0.0, 0, 0], [2, 0, 0], [2, 1, 0], [0, 1, 0]]) + np.array([3.0, 1.0, 0.0])
        else:
            V = np.array(list(itertools.product([0.0, 1.0], repeat=3))) + np.array([3.0, 1.0, -2.0])
        if t == "sphero-zero-radius":
            rep.transitions += 1
            try:
                getattr(S, case["cls"])(V.copy(), 0.0)
                rep.ok("accepted:zero-radius")
            except Exception as ex:
                rep.violation("constructor", case["cls"], "__init__", "rejected-valid:" + type(ex).__name__, case, "radius 0 rejected: %r" % (ex,))
            return rep
        expect_value_error(rep, case["cls"], "negative-radius(%s)" % case["bad"], case, lambda: getattr(S, case["cls"])(V.copy(), float(case["bad"])))
        return rep
    if t == "aliasing":
        return aliasing(rep, case)
    raise ValueError(t)


def aliasing(rep, case):
    from coxeter import shapes as S

    cls = case["cls"]
    j = case["variant"]
    off = np.array([3.0, -1.0, 2.0]) * (1 + j)
    args = {}
    if cls in ("Polygon", "ConvexPolygon", "ConvexSpheropolygon"):
        V = np.array([[0.0, 0, 0], [4, 0, 0], [5, 2, 0], [1, 3, 0]]) + off
        args["vertices"] = V
        args["normal"] = np.array([0.0, 0.0, 2.0 + j])
        if cls == "ConvexSpheropolygon":
            build = lambda a: S.ConvexSpheropolygon(a["vertices"], 0.5, normal=a["normal"])  # noqa: E731
        else:
            build = lambda a: getattr(S, cls)(a["vertices"], normal=a["normal"])  # noqa: E731
    elif cls in ("ConvexPolyhedron", "ConvexSpheropolyhedron"):
        args["vertices"] = np.array(list(itertools.product([0.0, 1.0], [0.0, 2.0], [0.0, 3.0]))) + off
        build = (lambda a: S.ConvexPolyhedron(a["vertices"])) if cls == "ConvexPolyhedron" else (lambda a: S.ConvexSpheropolyhedron(a["vertices"], 0.25))
    elif cls == "Polyhedron":
        V = np.array(list(itertools.product([0.0, 1.0], [0.0, 2.0], [0.0, 3.0]))) + off
        args["vertices"] = V
        faces = [[0, 2, 6, 4], [0, 4, 5, 1], [4, 6, 7, 5], [0, 1, 3, 2], [2, 3, 7, 6], [1, 5, 7, 3]]
        if j == 1:
            faces = [f[::-1] if i % 2 else f[1:] + f[:1] for i, f in enumerate(faces)]  # needs sorting
        for i, f in enumerate(faces):
            args["face%d" % i] = np.array(f)

        def build(a):
            p = S.Polyhedron(a["vertices"], [a["face%d" % i] for i in range(6)], faces_are_convex=True)
            if j == 1:
                p.sort_faces()
            return p

    else:
        args["center"] = np.array([1.0, 2.0, 3.0]) * (1 + j)
        ax = {"Circle": (1.5,), "Sphere": (1.5,), "Ellipse": (1.5, 0.5), "Ellipsoid": (1.5, 0.5, 2.5)}[cls]
        build = lambda a: getattr(S, cls)(*ax, a["center"])  # noqa: E731
    keep = {k: v.copy() for k, v in args.items()}
    try:
        obj = build(args)
    except Exception as ex:
        rep.violation("constructor", cls, "__init__", "rejected-valid:" + type(ex).__name__, case, repr(ex))
        return rep
    for k, v in args.items():
        rep.transitions += 1
        if not (v.shape == keep[k].shape and np.array_equal(v, keep[k])):
            rep.violation("aliasing", cls, "__init__", "argument-modified:" + ("face" if k.startswith("face") else k), case, "the caller's %s array was modified by %s (%s -> %s)" % (k, "the constructor" if not (cls == "Polyhedron" and j == 1) else "constructor + sort_faces", keep[k].tolist(), v.tolist()))
        else:
            rep.ok("argument-intact")
    internal = reachable_arrays(obj)
    for k, v in args.items():
        rep.transitions += 1
        if any(np.shares_memory(v, a) for a in internal):
            rep.violation("aliasing", cls, "__init__", "argument-stored:" + ("face" if k.startswith("face") else k), case, "the new %s shares memory with the caller's %s array" % (cls, k))
        else:
            rep.ok("argument-not-stored")
    rep.sample({"case": case})
    return rep
