"""C08 - size setters hit their target by pure similarity; bad targets are refused.
Engine E1, single step from every state of the depth-1 frontier of C03's alphabet plus
curved objects."""
import copy
import math
import inspect
import warnings

import numpy as np

from .. import alphabet as A
from .. import e1
from ..common import Report

PROPERTY = "C08"
ENGINE = "E1"
TECHNIQUE = "explicit-state exploration: every settable property x target alphabet as a single step from every depth<=1 state (cold and warm), oracle = similarity + read-back + atomic refusal"
RULE = (
    "start states = the 18 vertex-based base shapes, every state reached from them by one operation of C03's reflected alphabet, and "
    "curved objects (Circle/Ellipse/Sphere/Ellipsoid x axes x centres); transitions = every settable public property (by reflection) "
    "x positive targets {1e-3, 0.5, 2, 1e3} x current value and non-positive targets {0, -1, -current, nan}.  Oracle: positive target "
    "reads back as assigned, vertices/axes/rounding radius change by one common factor s>0 about some point (no rotation, no "
    "reflection), every dimensionless descriptor and the combinatorics are unchanged; centre setters translate only; a target that "
    "cannot be honoured raises ValueError (RuntimeError when the underlying ball does not exist) and leaves the instance dictionary "
    "bit-identical; the x2, x1e-3 and centre assignments are executed twice: on a cold object and after every public observable has been read on the very object (memo fields filled).  Individual semi-axis and rounding-radius setters are parameter setters: read-back and all other parameters "
    "unchanged.  Also: integer-typed targets (Python int, numpy.int64; centre as a tuple of ints / an integer array); start states include tiny, negatively oriented, -z-normal and unsorted-axes shapes; malformed centre values must raise atomically.  non-trivial = transition from a non-base state or with a target other than 2x."
)
ASSUMPTIONS = ["targets over 1e-3..1e3 sampled at 4 ratios", "bounding-ball radii read back through miniball are compared at 1e-6 relative (miniball's epsilon)"]
BOUNDS = {"quick": {"depth": "single step from depth<=1 states"}, "thorough": {"depth": "single step from depth<=2 states of the 3-D bases"}}
CHUNK = 1
POS = [1e-3, 0.5, 2.0, 1e3]
NEG = ["zero", "minus-one", "minus-current", "nan"]
PARAM_SETTERS = {"a", "b", "c"}
CURVED = [
    ("Circle", [1.0], 1), ("Circle", [7.5], 2), ("Ellipse", [2.0, 0.3], 1), ("Ellipse", [1.0, 1.0 + 1e-6], 3),
    ("Sphere", [0.3], 2), ("Sphere", [2.0], 0), ("Ellipsoid", [2.0, 7.5, 1.0], 1), ("Ellipsoid", [2.0, 2.0, 0.3], 3),
]


def make_curved(i):
    from coxeter import shapes as S

    cls, ax, k = CURVED[i]
    return getattr(S, cls)(*ax, A.curv_centres(2 * max(ax))[k])


def cases(tier):
    from ..common import bind_repo

    bind_repo()
    out = []
    for b in [x for x in e1.BASES if x != "Polyhedron/scrambled"]:  # (before sort_faces its faces are not boundary cycles)
        out.append({"base": b, "prefix": []})
        for op in e1.discover_ops(e1.make_base(b)):
            if op.endswith("=neg"):
                continue
            out.append({"base": b, "prefix": [op]})
    for i in range(len(CURVED)):
        out.append({"curved": i, "prefix": []})
    return out


def setters_of(obj):
    out = []
    for name, m in inspect.getmembers(type(obj)):
        if name.startswith("_") or not isinstance(m, property) or m.fset is None:
            continue
        out.append(name)
    return out


def geometry(obj):
    """Defining data as a flat dict of float arrays."""
    g = {}
    if hasattr(obj, "vertices"):
        g["vertices"] = np.array(obj.vertices, float)
        if hasattr(obj, "radius"):
            g["radius"] = float(obj.radius)
        if hasattr(obj, "normal"):
            g["normal"] = np.array(obj.normal, float)
    else:
        for k in ("radius", "a", "b", "c"):
            if hasattr(obj, k):
                g[k] = float(getattr(obj, k))
        g["centre"] = np.array(obj.centroid, float)
    return g


DIMLESS = ("iq", "tau", "asphericity", "eccentricity", "num_vertices", "num_faces", "num_edges", "faces", "neighbors", "normals", "normal", "get_dihedral(all)", "edges")


def run_case(case):
    rep = Report()
    with warnings.catch_warnings():
        warnings.simplefilter("ignore")
        if "curved" in case:
            start = make_curved(case["curved"])
            label_base = CURVED[case["curved"]][0]
        else:
            start = e1.make_base(case["base"])
            label_base = case["base"]
        try:
            for op in case["prefix"]:
                e1.apply_op(start, op)
        except Exception:
            rep.skip("prefix-op-raised")
            return rep
        cls = type(start).__name__
        rep.states += 1
        g0 = geometry(start)
        obs0 = e1.observe(copy.deepcopy(start), None)
        for name in setters_of(start):
            try:
                e1._reseed()
                cur = getattr(copy.deepcopy(start), name)
                cur_exc = None
            except NotImplementedError:
                continue
            except Exception as ex:
                cur, cur_exc = None, ex
            centre_like = name in e1.CENTRE_LIKE
            if centre_like:
                sz = _size(g0)
                targets = [("origin", np.zeros(3)), ("123", np.array([1.0, 2.0, 3.0]) * sz / 4.0), ("far", np.asarray(cur, float) + np.array([-6.0, 0.5, 8.0]) * sz)]
                # the same kind of target written with integers (what a user types: centroid = (0, 0, 0))
                targets += [("origin-int-tuple", (0, 0, 0))]
                if sz >= 0.5:  # (a unit-sized target is ~1e4 sizes away from the tiny start states: ill-conditioned)
                    targets += [("int-array", np.array([1, -2, 3]) * max(1, int(round(sz))))]
                if hasattr(start, "vertices") and not case["prefix"]:
                    # the target is a VIEW of the shape's own vertex array (shape.centroid = shape.vertices[1]):
                    # the assigned point is the value the view holds at the time of the assignment
                    targets += [("own-vertex-view", "view")]
                if hasattr(start, "vertices"):
                    targets += [("malformed-2", (1.5, -2.5)), ("malformed-4", (1.0, 2.0, 3.0, 4.0)), ("malformed-None", None)]
            else:
                c0 = float(cur) if cur is not None else 1.0
                big = max(1, int(math.ceil(c0 * 2)))
                targets = [("x%g" % k, c0 * k) for k in POS] + [("int", big), ("np.int64", np.int64(big + 1))] + [("zero", 0.0), ("minus-one", -1.0), ("minus-current", -abs(c0) if c0 else -2.0), ("nan", float("nan"))]
            if name in PARAM_SETTERS and not centre_like:
                # a semi-axis assigned the current value of ANOTHER semi-axis: (x, x, y) -> (x, y, y) keeps the set of
                # values while the shape changes (a memo keyed on the set would survive)
                for other in "abc":
                    if other != name and hasattr(start, other) and float(getattr(start, other)) != c0:
                        targets.append(("as-" + other, float(getattr(start, other))))
            for tag, val in targets:
                for warm in ((False, True) if ((tag in ("x2", "far") or tag.startswith("as-")) and not case["prefix"]) or (tag == "x2" and len(case["prefix"]) == 1 and case["prefix"][0].startswith("call:")) else (False,)):
                    obj = copy.deepcopy(start)
                    if warm:
                        # history read* -> set -> read: every public observable and every query (is_inside,
                        # form factor, distance_to_surface ... with arguments) is evaluated on the very
                        # object first, so that any memo field is filled before the assignment
                        e1.observe(obj, None)
                        from .c16 import query_alphabet, run_query

                        for qq in query_alphabet(obj):
                            if "save" in qq[0] or qq[0].startswith("io:") or "to_hoomd" in qq[0]:
                                continue
                            try:
                                run_query(obj, qq)
                            except Exception:
                                pass
                    try:
                        getattr(obj, name)  # the read a user would do to compute the target; may fill a memo
                    except Exception:
                        pass
                    tree = e1.key_tree(obj)
                    before = e1.exact_state_on(obj, tree)
                    tcase = dict(case, setter=name, target=tag, warm=warm)  # replayable: run_case reads base/curved/prefix only
                    rep.transitions += 1
                    rep.traces += 1
                    if case["prefix"] or tag != "x2":
                        rep.nontrivial += 1
                    e1._reseed()
                    if tag == "own-vertex-view":
                        view = obj.vertices[1]
                        val = np.array(view, float)  # what was assigned, for the comparisons below
                    try:
                        setattr(obj, name, view if tag == "own-vertex-view" else val)
                        raised = None
                    except Exception as ex:
                        raised = ex
                    bad_target = (not centre_like) and tag in NEG and not (tag == "zero" and name == "radius" and "Sphero" in cls)
                    malformed = tag.startswith("malformed")
                    if raised is not None:
                        unchanged = e1.exact_state_on(obj, tree) == before  # memo fields may appear
                        if not unchanged:
                            rep.violation("setter", cls, name, "raise-not-atomic", tcase, "%s = %s raised %r but changed the object" % (name, tag, raised))
                        elif malformed:
                            rep.ok("malformed-centre-refused-atomically")
                        elif bad_target:
                            if isinstance(raised, ValueError) or (cur_exc is not None and isinstance(raised, type(cur_exc))):
                                rep.ok("refused:" + type(raised).__name__)
                            else:
                                rep.violation("setter", cls, name, "wrong-exception:" + type(raised).__name__, tcase, "%s = %s raised %r instead of ValueError" % (name, tag, raised))
                        else:
                            if cur_exc is not None and type(raised) is type(cur_exc):
                                rep.ok("cannot-honour:" + type(raised).__name__)  # e.g. no circumsphere exists
                            else:
                                rep.violation("setter", cls, name, "positive-target-raised:" + type(raised).__name__, tcase, "%s = %s (%r) raised %r" % (name, tag, val, raised))
                        continue
                    if malformed:
                        rep.skip("malformed-centre-accepted")
                        continue
                    if bad_target:
                        rep.violation("setter", cls, name, "non-positive-target-accepted", tcase, "%s = %r was accepted (geometry now %s)" % (name, val, {k: np.asarray(v).tolist() if np.size(v) < 7 else "..." for k, v in geometry(obj).items()}))
                        continue
                    # ---- accepted positive / centre target
                    g1 = geometry(obj)
                    finite = all(np.all(np.isfinite(np.asarray(v, float))) for v in g1.values())
                    if not finite:
                        rep.violation("setter", cls, name, "non-finite-geometry", tcase, "%s = %r left non-finite geometry" % (name, val))
                        continue
                    e1._reseed()
                    try:
                        back = getattr(obj, name)
                    except Exception as ex:
                        rep.violation("setter", cls, name, "read-back-raised:" + type(ex).__name__, tcase, "reading %s after assigning %r raised %r" % (name, val, ex))
                        continue
                    rt = 1e-6 if ("bounding" in name and hasattr(obj, "vertices")) else 1e-9
                    if centre_like:
                        ok = np.max(np.abs(np.asarray(back, float) - val)) <= 1e-9 * (1 + np.max(np.abs(val)) + _size(g0))
                    else:
                        ok = abs(float(back) - val) <= rt * abs(val)
                    if not ok:
                        rep.violation("setter", cls, name, "read-back-differs", tcase, "assigned %s = %r, reads back %r" % (name, np.asarray(val).tolist(), np.asarray(back).tolist()))
                        continue
                    msg = _similarity(g0, g1, name, centre_like, cls, val, cur)
                    if msg:
                        rep.violation("setter", cls, name, msg[0], tcase, "%s = %s: %s" % (name, tag, msg[1]))
                        continue
                    # dimensionless descriptors and combinatorics unchanged
                    obs1 = e1.observe(copy.deepcopy(obj), None)
                    sub0 = {k: v for k, v in obs0.items() if k in DIMLESS}
                    sub1 = {k: v for k, v in obs1.items() if k in DIMLESS}
                    if name in PARAM_SETTERS or (name == "radius" and "Sphero" in cls):
                        sub0 = {k: v for k, v in sub0.items() if k not in ("iq", "eccentricity", "tau", "asphericity")}
                        sub1 = {k: v for k, v in sub1.items() if k in sub0}
                    diffs = e1.compare_observations(sub1, sub0, 1.0, 1.0)
                    if diffs:
                        rep.violation("setter", cls, name, "descriptor-changed:" + diffs[0][0], tcase, "%s = %s changed the dimensionless observable %s: %s" % (name, tag, diffs[0][0], diffs[0][1]))
                        continue
                    if warm:
                        # the resized / moved object must answer every query like a fresh object with the same
                        # defining data (a memo filled before the assignment must not survive it)
                        try:
                            twin = e1.twin_of(obj)
                        except Exception as ex:
                            rep.violation("setter", cls, name, "state-not-constructible", tcase, "after %s = %s the defining data no longer construct a %s: %r" % (name, tag, cls, ex))
                            continue
                        pr = _probes(obj)
                        got_o = e1.observe(copy.deepcopy(obj), pr)
                        want_o = e1.observe(twin, pr)
                        gv = e1.defining_vertices(obj)
                        Lq = float(np.linalg.norm(gv.max(0) - gv.min(0))) or float(max(abs(float(v)) for v in geometry(obj).values() if np.isscalar(v)) if not hasattr(obj, "vertices") else 1.0)
                        Dq = Lq + float(np.linalg.norm(gv.mean(0)))
                        badc = e1.compare_observations(got_o, want_o, Lq, Dq)
                        if badc:
                            rep.violation("setter", cls, name, "stale-after-assignment:" + badc[0][0], tcase, "after reading everything and then %s = %s, %s differs from a fresh object with the same data: %s" % (name, tag, badc[0][0], badc[0][1]))
                            continue
                    rep.ok("accepted:" + ("translate" if centre_like else "scale"))
        rep.sample({"start": case, "class": cls, "setters": setters_of(start)})
    return rep


def _probes(obj):
    if hasattr(obj, "vertices"):
        tw = e1.twin_of(obj)
        return e1.margin_filter(tw, e1.probes_for(obj))
    g = geometry(obj)
    cen = np.asarray(g["centre"], float)
    ax = np.array([g.get("a", g.get("radius", 1.0)), g.get("b", g.get("radius", 1.0)), g.get("c", g.get("radius", 1.0))], float)
    u = np.array([[0, 0, 0], [0.31, 0.22, 0.0], [0.9, 0.1, 0.0], [0.55, 0.55, 0.0], [1.2, 0.3, 0.0], [0.1, -1.4, 0.0], [-0.6, 0.62, 0.0], [3.0, 3.0, 0.0], [0.2, 0.1, 0.5], [0.2, 0.1, -1.3]])
    return {"points": cen + u * ax, "q": np.array([[0.0, 0, 0], [1.0, 0, 0], [0, 0.7, 0], [0.3, -0.2, 0.9]]) / max(ax), "angles": np.linspace(-7.0, 7.0, 29) if hasattr(obj, "distance_to_surface") else None}


def _size(g):
    if "vertices" in g:
        v = g["vertices"]
        return float(np.linalg.norm(v.max(0) - v.min(0)))
    return max(g.get(k, 0.0) for k in ("radius", "a", "b", "c"))


def _similarity(g0, g1, name, centre_like, cls, val, cur):
    """None if g1 is a legitimate image of g0 under this setter; else (mode, message)."""
    if "vertices" in g0:
        v0, v1 = g0["vertices"], g1["vertices"]
        if v0.shape != v1.shape:
            return ("vertex-count-changed", "vertex array shape %s -> %s" % (v0.shape, v1.shape))
        L = _size(g0)
        if centre_like:
            d = v1 - v0
            if np.max(np.abs(d - d[0])) > 1e-9 * (L + np.max(np.abs(d))):
                return ("not-a-translation", "vertex displacements are not all equal (spread %.3g)" % np.max(np.abs(d - d[0])))
            if "radius" in g0 and g1["radius"] != g0["radius"]:
                return ("not-a-translation", "rounding radius changed")
            return None
        if name == "radius" and "Sphero" in cls:
            if not np.array_equal(v0, v1):
                return ("parameter-setter-moved-vertices", "assigning the rounding radius changed the vertices")
            return None
        a0, a1 = v0 - v0.mean(0), v1 - v1.mean(0)
        s = np.linalg.norm(a1) / np.linalg.norm(a0)
        if not np.isfinite(s) or s <= 0:
            return ("collapsed", "scale factor %r" % s)
        if np.max(np.abs(a1 - s * a0)) > 1e-9 * s * L:
            # reflection / rotation / anisotropy
            sgn = "mirrored" if np.max(np.abs(a1 + s * a0)) <= 1e-9 * s * L else "not-a-uniform-scaling"
            return (sgn, "vertices are not s*(old) + t with one s>0 (s=%.6g, max deviation %.3g)" % (s, np.max(np.abs(a1 - s * a0))))
        if "radius" in g0 and abs(g1["radius"] - s * g0["radius"]) > 1e-9 * s * max(g0["radius"], 1e-300) + 1e-300:
            return ("radius-not-scaled", "rounding radius %r -> %r but vertices scaled by %r" % (g0["radius"], g1["radius"], s))
        if "normal" in g0 and np.max(np.abs(g1["normal"] - g0["normal"])) > 1e-12:
            return ("normal-changed", "normal changed")
        return None
    # curved
    if not np.array_equal(g0["centre"], g1["centre"]) and not centre_like:
        return ("centre-moved", "a size setter moved the centre")
    keys = [k for k in ("radius", "a", "b", "c") if k in g0]
    if centre_like:
        if any(g0[k] != g1[k] for k in keys):
            return ("not-a-translation", "axes changed")
        return None
    if name in PARAM_SETTERS:
        others = [k for k in keys if k != name]
        if any(g0[k] != g1[k] for k in others):
            return ("parameter-setter-changed-others", "assigning %s changed %s" % (name, others))
        return None
    ratios = [g1[k] / g0[k] for k in keys]
    if min(ratios) <= 0 or max(ratios) / min(ratios) - 1 > 1e-12:
        return ("not-a-uniform-scaling", "semi-axes scaled by different factors %s" % ratios)
    return None
