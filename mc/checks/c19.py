"""C19 - GSD, repr and HOOMD representations round-trip the shape."""
import itertools
import math
import warnings

import numpy as np

from .. import alphabet as A
from .. import e1
from .. import exact as X
from ..common import Report
from .c04 import PL2, PL3, place

PROPERTY = "C19"
ENGINE = "E2"
TECHNIQUE = "bounded-exhaustive enumeration of shapes of all ten classes and of GSD spec variants through the three round trips"
RULE = (
    "cases = shapes of all ten classes from the alphabets (S3 lattice hulls as ConvexPolyhedron/Polyhedron/ConvexSpheropolyhedron, VOX "
    "solids, P2 polygons in both orientations, CP2 as ConvexPolygon/ConvexSpheropolygon, CURV curved shapes), placed away from the "
    "origin; plus all GSD type strings with missing/unknown-key variants.  Checked: from_gsd_type_shapes(gsd_shape_spec, dims) gives "
    "the same class (a subclass for a convex Polygon) with the same defining data; a non-convex cycle gives a Polygon; missing or "
    "unknown type raises ValueError; eval(repr(x)) gives the same class or its polytope base class with the same vertices, faces, "
    "radii, centre, normal and measures; to_json returns exactly the requested attributes for every property (by reflection), "
    "AttributeError otherwise; to_hoomd returns the documented keys and every value equals that of a fresh object built from the "
    "centred vertices (centroid (0,0,0), volume/area, inertia tensor about the centroid, sweep radius).  non-trivial = every case "
    "(all are off-origin)."
)
ASSUMPTIONS = ["eval(repr(x)) is evaluated in a namespace holding `coxeter` and numpy's public names (a Polyhedron prints `array([...], dtype=int32)`)"]
BOUNDS = {"quick": {"shapes": "~500"}, "thorough": {"shapes": "~2500"}}
CHUNK = 10
HOOMD_KEYS = {
    "Polyhedron": {"vertices", "faces", "centroid", "sweep_radius", "volume", "moment_inertia"},
    "ConvexPolyhedron": {"vertices", "faces", "centroid", "sweep_radius", "volume", "moment_inertia"},
    "Polygon": {"vertices", "centroid", "sweep_radius", "area", "moment_inertia"},
    "ConvexPolygon": {"vertices", "centroid", "sweep_radius", "area", "moment_inertia"},
    "ConvexSpheropolygon": {"vertices", "centroid", "sweep_radius", "area"},
    "ConvexSpheropolyhedron": {"vertices", "centroid", "sweep_radius", "volume"},
    "Sphere": {"diameter", "centroid", "volume", "moment_inertia"},
    "Ellipsoid": {"a", "b", "c", "centroid", "volume", "moment_inertia"},
}


def cases(tier):
    out = []
    q = tier == "quick"
    pq = [p for p in A.placements_quick() if p["shift"] != "t0"]
    k = 0
    for kk, step in ((4, 8 if q else 2), (5, 40 if q else 8)):
        for i, S in enumerate(A.s3(kk)):
            if i % step:
                continue
            for cls in ("ConvexPolyhedron", "Polyhedron", "ConvexSpheropolyhedron"):
                out.append({"cls": cls, "pts": S, "pl": pq[k % len(pq)]})
                k += 1
            out.append({"cls": "ConvexSpheropolyhedron", "pts": S, "pl": pq[k % len(pq)], "r0": True})  # rounding radius exactly 0
    # tiny shapes a few sizes away from the origin (an absolute "already centred" test would misfire)
    tiny = {"rot": "q1234", "scale": "s1", "shift": "t3-25", "tiny": 1e-9}
    for i, S in enumerate(A.s3(4)):
        if i % (60 if q else 12) == 0:
            for cls in ("ConvexPolyhedron", "Polyhedron", "ConvexSpheropolyhedron"):
                out.append({"cls": cls, "pts": S, "pl": tiny})
    for i, c in enumerate(A.cp2(5, 4)):
        if i % (150 if q else 30) == 0:
            for cls in ("Polygon", "ConvexPolygon"):
                out.append({"cls": cls, "poly": [list(p) for p in c], "pl": tiny})
    for i in range(len(A.vox((2, 2, 2)))):
        if i % (6 if q else 1) == 0:
            out.append({"cls": "Polyhedron", "vox": i, "pl": pq[k % len(pq)]})
            k += 1
    for n, step in ((3, 8 if q else 2), (4, 40 if q else 8), (5, 250 if q else 50)):
        for i, c in enumerate(A.p2_thin(n, 4)):
            if i % step:
                continue
            out.append({"cls": "Polygon", "poly": [list(p) for p in c], "pl": PL3[1 + k % 7]})
            out.append({"cls": "Polygon", "poly": [list(p) for p in c], "pl2": PL2[1 + k % 5]})
            # explicit normals, including the one opposite to the normal the first three vertices would give
            out.append({"cls": "Polygon", "poly": [list(p) for p in c], "pl": PL3[1 + (k + 3) % 7], "normal": "+"})
            out.append({"cls": "Polygon", "poly": [list(p) for p in c], "pl2": PL2[1 + (k + 2) % 5], "normal": "-"})
            k += 1
    for i, c in enumerate(A.cp2(5, 4)):
        if i % (20 if q else 4):
            continue
        for cls in ("ConvexPolygon", "ConvexSpheropolygon"):
            out.append({"cls": cls, "poly": [list(p) for p in c], "pl": PL3[1 + k % 7]})
            out.append({"cls": cls, "poly": [list(p) for p in c][::-1], "pl2": PL2[1 + k % 5]})
            k += 1
        out.append({"cls": "ConvexSpheropolygon", "poly": [list(p) for p in c], "pl": PL3[1 + k % 7], "r0": True})
    ax = A.AXES
    for ia, a in enumerate(ax):
        out.append({"cls": "Circle", "axes": [a], "centre": 1 + ia % 3})
        # centres at the origin, on a coordinate plane and on an axis (a repr that drops a "default" centre must not
        # drop these)
        for k in (0, 4, 5):
            out.append({"cls": ("Sphere", "Ellipsoid", "Circle", "Ellipse")[(ia + k) % 4], "axes": {"Sphere": [a], "Circle": [a], "Ellipse": [a, 2.0], "Ellipsoid": [a, 0.3, 2.0]}[("Sphere", "Ellipsoid", "Circle", "Ellipse")[(ia + k) % 4]], "centre": k})
        out.append({"cls": "Sphere", "axes": [a], "centre": 1 + ia % 3})
        for ib, b in enumerate(ax):
            if (ia + ib) % (3 if q else 1) == 0:
                out.append({"cls": "Ellipse", "axes": [a, b], "centre": 1 + (ia + ib) % 3})
            for ic, c in enumerate(ax):
                if (ia + 2 * ib + 3 * ic) % (27 if q else 5) == 0:
                    out.append({"cls": "Ellipsoid", "axes": [a, b, c], "centre": 1 + (ia + ib + ic) % 3})
    for v in ("missing-type", "unknown-type", "nonconvex-polygon", "convex-polygon", "polygon-rounded", "polyhedron-rounded", "sphere-2d", "sphere-3d", "ellipsoid-2d", "ellipsoid-3d", "mesh"):
        out.append({"cls": "gsd-variants", "variant": v})
    return out


def build(case):
    x = _build(case)
    return x


def _tiny(case, F):
    f = case.get("pl", {}).get("tiny") if isinstance(case.get("pl"), dict) else None
    return F * f if f else F


def _build(case):
    from coxeter import shapes as S

    cls = case["cls"]
    if "axes" in case:
        cen = A.curv_centres(2 * max(case["axes"]))[case["centre"]]
        return getattr(S, cls)(*case["axes"], cen)
    if "poly" in case:
        poly = [tuple(p) for p in case["poly"]]
        F, s, R, t = place(case, poly)
        F = _tiny(case, F)
        if case.get("pl", {}).get("tiny") if "pl" in case else False:
            s = s * case["pl"]["tiny"]
        if cls == "Polygon":
            if case.get("normal"):
                nz = 1.0 if case["normal"] == "+" else -1.0
                return S.Polygon(F, normal=R @ np.array([0.0, 0.0, nz]))
            return S.Polygon(F)
        if cls == "ConvexPolygon":
            return S.ConvexPolygon(F)
        return S.ConvexSpheropolygon(F, 0.0 if case.get("r0") else 0.3 * s)
    if "vox" in case:
        v = A.vox((2, 2, 2))[case["vox"]]
        F = A.apply_placement(case["pl"], np.array(v["verts"], float))
        return S.Polyhedron(F, [np.array(f, dtype=np.int32) for f in v["faces"]], faces_are_convex=True)
    P = [tuple(p) for p in case["pts"]]
    F = _tiny(case, A.apply_placement(case["pl"], np.array(P, float)))
    s = A.SCALES[case["pl"]["scale"]] * (case["pl"].get("tiny") or 1.0)
    if cls == "ConvexPolyhedron":
        return S.ConvexPolyhedron(F)
    if cls == "ConvexSpheropolyhedron":
        return S.ConvexSpheropolyhedron(F, 0.0 if case.get("r0") else 0.25 * s)
    faces = [list(ext) for _, _, _, ext in X.hull_facets(P)]
    return S.Polyhedron(F, faces, faces_are_convex=True)


def defining(obj):
    d = {"class": type(obj).__name__}
    if hasattr(obj, "vertices"):
        d["vertices"] = np.asarray(obj.vertices, float)
        core = getattr(obj, "_polyhedron", None) or obj
        if hasattr(core, "faces") and not hasattr(obj, "normal"):
            d["faces"] = sorted(e1._cyc(f) for f in core.faces)
        if hasattr(obj, "radius"):
            d["radius"] = float(obj.radius)
        if hasattr(obj, "normal"):
            d["normal"] = np.asarray(obj.normal, float)
    else:
        for k in ("radius", "a", "b", "c"):
            if hasattr(obj, k):
                d[k] = float(getattr(obj, k))
        d["centre"] = np.asarray(obj.centroid, float)
    return d


def measures(obj):
    m = {}
    for k in ("volume", "surface_area", "area", "perimeter"):
        try:
            m[k] = float(getattr(obj, k))
        except Exception:
            pass
    return m


def run_case(case):
    import numpy

    import coxeter
    from coxeter import shapes as S
    from coxeter.shape_getters import from_gsd_type_shapes

    rep = Report()
    rep.states += 1
    rep.traces += 1
    rep.nontrivial += 1
    with warnings.catch_warnings():
        warnings.simplefilter("ignore")
        if case["cls"] == "gsd-variants":
            return gsd_variants(rep, case, from_gsd_type_shapes, S)
        try:
            x = build(case)
        except Exception as ex:
            rep.skip("shape-does-not-construct:" + type(ex).__name__)
            return rep
        cls = type(x).__name__
        d0 = defining(x)
        size = float(np.max(np.abs(d0["vertices"]))) if "vertices" in d0 else max(d0[k] for k in ("radius", "a", "b", "c") if k in d0)

        def bad(obs, mode, msg):
            rep.violation("roundtrip", cls, obs, mode, case, msg)

        # ---- GSD
        rep.transitions += 1
        try:
            spec = x.gsd_shape_spec
            dims = 2 if cls in ("Circle", "Ellipse", "Polygon", "ConvexPolygon", "ConvexSpheropolygon") else 3
            y = from_gsd_type_shapes(spec, dimensions=dims)
            ok_cls = type(y) is type(x) or (cls == "Polygon" and isinstance(y, S.Polygon))
            d1 = defining(y)
            if not ok_cls:
                bad("gsd_shape_spec", "class-changed", "from_gsd_type_shapes(%s spec) gives a %s" % (cls, type(y).__name__))
            else:
                msg = None
                if "vertices" in d0:
                    a, b = d0["vertices"], d1["vertices"]
                    if a.shape != b.shape or sorted(map(tuple, a.tolist())) != sorted(map(tuple, b.tolist())):
                        msg = "vertices differ"
                    elif cls in ("ConvexPolyhedron", "Polyhedron", "ConvexSpheropolyhedron") and not np.array_equal(a, b):
                        msg = "vertex order differs"
                    if "faces" in d0 and d0["faces"] != d1.get("faces"):
                        msg = "faces differ"
                    if "radius" in d0 and d0["radius"] != d1.get("radius"):
                        msg = "rounding radius differs"
                else:
                    for k in ("radius", "a", "b", "c"):
                        if k in d0 and not (abs(d0[k] - d1.get(k, float("nan"))) <= 1e-15 * d0[k]):
                            msg = "%s %r -> %r" % (k, d0[k], d1.get(k))
                if msg:
                    bad("gsd_shape_spec", "data-changed", "GSD round trip: " + msg)
                else:
                    m0, m1 = measures(x), measures(y)
                    if any(abs(m0[k] - m1.get(k, float("nan"))) > 1e-9 * abs(m0[k]) for k in m0):
                        bad("gsd_shape_spec", "measures-changed", "GSD round trip changed the measures: %s -> %s" % (m0, m1))
                    else:
                        rep.ok("gsd-roundtrip")
        except Exception as ex:
            bad("gsd_shape_spec", "raised:" + type(ex).__name__, "GSD round trip raised %r" % (ex,))
        # ---- repr
        rep.transitions += 1
        try:
            ns = {k: getattr(numpy, k) for k in dir(numpy) if not k.startswith("_")}
            ns["coxeter"] = coxeter
            y = eval(repr(x), ns)
            if not (type(y) is type(x) or (isinstance(x, type(y)) and type(y).__name__ in ("Polygon", "Polyhedron"))):
                bad("repr", "class-changed", "eval(repr(%s)) is a %s" % (cls, type(y).__name__))
            else:
                d1 = defining(y)
                msg = None
                for k, v in d0.items():
                    if k == "class":
                        continue
                    w = d1.get(k)
                    if isinstance(v, np.ndarray):
                        lim = 1e-12 if k == "normal" else 1e-12 * (size + 1e-300)  # the normal is dimensionless
                        if w is None or v.shape != np.shape(w) or np.max(np.abs(v - w)) > lim:
                            msg = "%s differs" % k
                    elif isinstance(v, list):
                        if v != w:
                            msg = "%s differ" % k
                    elif not (w is not None and abs(v - w) <= 1e-12 * abs(v) + 1e-300):
                        msg = "%s %r -> %r" % (k, v, w)
                m0, m1 = measures(x), measures(y)
                if msg is None and any(abs(m0[k] - m1.get(k, float("nan"))) > 1e-9 * abs(m0[k]) for k in m0):
                    msg = "measures %s -> %s" % (m0, m1)
                if msg:
                    bad("repr", "data-changed", "eval(repr(x)): " + msg)
                else:
                    rep.ok("repr-roundtrip")
        except Exception as ex:
            bad("repr", "raised:" + type(ex).__name__, "eval(repr(x)) raised %r; repr=%s" % (ex, repr(x)[:120]))
        # ---- to_json
        names = []
        for name, m in e1.public_properties(type(x)):
            try:
                getattr(x, name)
                names.append(name)
            except Exception:
                pass
        rep.transitions += 1
        okj = True
        for name in names:
            try:
                e1._reseed()
                r = x.to_json([name])
                e1._reseed()
                v = getattr(x, name)
                same, _ = e1._cmp(e1._plain(r.get(name)), e1._plain(v), 1e-6 if ("bounding" in name or "circum" in name) else 0.0, 0.0) if name in r else (False, "")
                if list(r.keys()) != [name] or not same:
                    bad("to_json", "wrong-content", "to_json([%r]) returned keys %s" % (name, list(r.keys())))
                    okj = False
                    break
            except Exception as ex:
                bad("to_json", "raised:" + type(ex).__name__, "to_json([%r]) raised %r" % (name, ex))
                okj = False
                break
        try:
            r = x.to_json(names[:3])
            if list(r.keys()) != names[:3]:
                bad("to_json", "wrong-keys", "to_json(%s) returned keys %s" % (names[:3], list(r.keys())))
                okj = False
            if x.to_json([]) != {}:
                bad("to_json", "wrong-keys", "to_json([]) is not empty")
                okj = False
        except Exception as ex:
            bad("to_json", "raised:" + type(ex).__name__, repr(ex))
            okj = False
        try:
            x.to_json(["volume_of_the_moon"])
            bad("to_json", "unknown-attribute-accepted", "to_json with an unknown attribute did not raise")
            okj = False
        except AttributeError:
            pass
        except Exception as ex:
            bad("to_json", "wrong-exception:" + type(ex).__name__, "unknown attribute raised %r instead of AttributeError" % (ex,))
            okj = False
        if okj:
            rep.ok("to_json")
        # ---- to_hoomd
        if cls in HOOMD_KEYS:
            rep.transitions += 1
            try:
                h = x.to_hoomd()
            except Exception as ex:
                bad("to_hoomd", "raised:" + type(ex).__name__, "to_hoomd raised %r" % (ex,))
                return rep
            if set(h.keys()) != HOOMD_KEYS[cls]:
                bad("to_hoomd", "wrong-keys", "keys %s, documented %s" % (sorted(h.keys()), sorted(HOOMD_KEYS[cls])))
                return rep
            msgs = []
            D = size
            if "vertices" in d0:
                core = getattr(x, "_polyhedron", None) or getattr(x, "_polygon", None) or x
                cen = np.asarray(core.centroid, float)
                Vc = d0["vertices"] - cen
                if cls in ("Polygon", "ConvexPolygon", "ConvexSpheropolygon"):
                    fresh = getattr(S, cls)(Vc, *((x.radius,) if cls == "ConvexSpheropolygon" else ()), **{"normal": d0["normal"].copy()})
                elif cls == "Polyhedron":
                    fresh = S.Polyhedron(Vc, [np.array(f) for f in x.faces], faces_are_convex=True)
                elif cls == "ConvexPolyhedron":
                    fresh = S.ConvexPolyhedron(Vc)
                else:
                    fresh = S.ConvexSpheropolyhedron(Vc, x.radius)
                hv = np.asarray(h["vertices"], float)
                wantv = Vc[:, :2] if (cls in ("Polygon", "ConvexPolygon") ) else Vc
                if hv.shape == wantv.shape and np.max(np.abs(hv - wantv)) > 1e-9 * D and np.array_equal(hv, d0["vertices"][:, : hv.shape[1]]):
                    # bug model of the recorded finding: the uncentred vertices are returned as they are
                    msgs.append(("vertices-returned-uncentred", "vertices are the shape's own (uncentred) vertices although centroid is reported as (0,0,0)"))
                elif hv.shape != wantv.shape or np.max(np.abs(hv - wantv)) > 1e-9 * D:
                    msgs.append(("vertices-not-centred", "vertices are not those of the shape translated to put its centroid at the origin (max deviation %.3g)" % (float(np.max(np.abs(hv - wantv))) if hv.shape == wantv.shape else float("nan"))))
                if "faces" in h and sorted(e1._cyc(f) for f in h["faces"]) != d0["faces"]:
                    msgs.append(("faces", "faces differ"))
                sr = float(h["sweep_radius"])
                if abs(sr - d0.get("radius", 0.0)) > 1e-15 * (1 + sr):
                    msgs.append(("sweep_radius", "sweep_radius %r, rounding radius %r" % (sr, d0.get("radius", 0.0))))
                for key, attr in (("volume", "volume"), ("area", "area")):
                    if key in h and abs(float(h[key]) - float(getattr(fresh, attr))) > 1e-9 * abs(float(getattr(fresh, attr))):
                        msgs.append((key, "%s %r, centred shape has %r" % (key, h[key], float(getattr(fresh, attr)))))
                if "moment_inertia" in h:
                    Iw = np.asarray(fresh.inertia_tensor, float)
                    Ig = np.asarray(h["moment_inertia"], float)
                    sc = float(np.max(np.abs(Iw))) + 1e-300
                    if Ig.shape != (3, 3) or np.max(np.abs(Ig - Iw)) > 1e-8 * sc:
                        msgs.append(("moment_inertia", "moment_inertia is not the inertia tensor about the centroid"))
            else:
                fresh = getattr(S, cls)(*case["axes"])
                for k in ("a", "b", "c"):
                    if k in h and h[k] != getattr(x, k):
                        msgs.append((k, "%s %r" % (k, h[k])))
                if "diameter" in h and abs(h["diameter"] - 2 * x.radius) > 0:
                    msgs.append(("diameter", "diameter %r for radius %r" % (h["diameter"], x.radius)))
                if abs(float(h["volume"]) - float(fresh.volume)) > 1e-12 * float(fresh.volume):
                    msgs.append(("volume", "volume %r" % (h["volume"],)))
                Iw = np.asarray(fresh.inertia_tensor, float)
                if np.max(np.abs(np.asarray(h["moment_inertia"], float) - Iw)) > 1e-9 * np.max(np.abs(Iw)):
                    msgs.append(("moment_inertia", "moment_inertia is not the inertia tensor about the centroid"))
            c = np.asarray(h["centroid"], float).reshape(-1)
            if c.shape != (3,) or np.max(np.abs(c)) > 1e-9 * D:
                msgs.append(("centroid", "centroid %s is not (0,0,0)" % (c.tolist(),)))
            for mode, m in msgs:
                bad("to_hoomd", mode, "to_hoomd: " + m)
            if not msgs:
                rep.ok("to_hoomd")
        rep.sample({"case": case, "class": cls})
    return rep


def gsd_variants(rep, case, getter, S):
    v = case["variant"]
    tri = [[0.0, 0, 0], [2, 0, 0], [0, 1, 0]]
    Lp = [[0.0, 0, 0], [3, 0, 0], [3, 1, 0], [1, 1, 0], [1, 2, 0], [0, 2, 0]]
    cube = [list(map(float, p)) for p in itertools.product([0, 1], repeat=3)]
    rep.transitions += 1

    def expect(fn, cls=None, exc=None):
        try:
            r = fn()
        except Exception as ex:
            if exc is not None and isinstance(ex, exc):
                rep.ok("raises-" + exc.__name__)
            else:
                rep.violation("roundtrip", "from_gsd_type_shapes", v, "raised:" + type(ex).__name__, case, "%s: %r" % (v, ex))
            return
        if exc is not None:
            rep.violation("roundtrip", "from_gsd_type_shapes", v, "accepted-invalid", case, "%s: returned %s instead of raising %s" % (v, type(r).__name__, exc.__name__))
        elif type(r).__name__ != cls:
            rep.violation("roundtrip", "from_gsd_type_shapes", v, "wrong-class", case, "%s: returned %s, expected %s" % (v, type(r).__name__, cls))
        else:
            rep.ok("class-" + cls)

    if v == "missing-type":
        expect(lambda: getter({"vertices": tri}), exc=ValueError)
        expect(lambda: getter({}), exc=ValueError)
    elif v == "unknown-type":
        expect(lambda: getter({"type": "Torus", "vertices": tri}), exc=ValueError)
        expect(lambda: getter({"type": "polygon", "vertices": tri}), exc=ValueError)
    elif v == "nonconvex-polygon":
        expect(lambda: getter({"type": "Polygon", "vertices": Lp}), cls="Polygon")
        expect(lambda: getter({"type": "Polygon", "vertices": Lp[::-1]}), cls="Polygon")
    elif v == "convex-polygon":
        expect(lambda: getter({"type": "Polygon", "vertices": tri}), cls="ConvexPolygon")
    elif v == "polygon-rounded":
        expect(lambda: getter({"type": "Polygon", "vertices": tri, "rounding_radius": 0.5}), cls="ConvexSpheropolygon")
    elif v == "polyhedron-rounded":
        expect(lambda: getter({"type": "ConvexPolyhedron", "vertices": cube, "rounding_radius": 0.5}), cls="ConvexSpheropolyhedron")
        expect(lambda: getter({"type": "ConvexPolyhedron", "vertices": cube}), cls="ConvexPolyhedron")
    elif v == "sphere-2d":
        expect(lambda: getter({"type": "Sphere", "diameter": 3.0}, dimensions=2), cls="Circle")
    elif v == "sphere-3d":
        expect(lambda: getter({"type": "Sphere", "diameter": 3.0}), cls="Sphere")
        expect(lambda: getter({"type": "Sphere", "diameter": 3.0}, dimensions=3), cls="Sphere")
    elif v == "ellipsoid-2d":
        expect(lambda: getter({"type": "Ellipsoid", "a": 1.0, "b": 2.0}, dimensions=2), cls="Ellipse")
    elif v == "ellipsoid-3d":
        expect(lambda: getter({"type": "Ellipsoid", "a": 1.0, "b": 2.0, "c": 3.0}), cls="Ellipsoid")
    elif v == "mesh":
        faces = [[0, 2, 6, 4], [0, 4, 5, 1], [4, 6, 7, 5], [0, 1, 3, 2], [2, 3, 7, 6], [1, 5, 7, 3]]
        expect(lambda: getter({"type": "Mesh", "vertices": cube, "indices": faces}), cls="Polyhedron")
    return rep
