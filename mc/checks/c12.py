"""C12 - the form factor amplitude is the Fourier transform of the shape."""
import itertools
import math

import numpy as np

from .. import alphabet as A
from .. import exact as X
from ..common import Report
from .c04 import PL3, place

PROPERTY = "C12"
ENGINE = "E2"
TECHNIQUE = "bounded-exhaustive enumeration of shapes x placements x wave-vector alphabet x ordered batches vs an independent Fourier transform (signed simplices, divided differences)"
RULE = (
    "cases = shape (ConvexPolyhedron / Polyhedron over S3 lattice hulls, Polyhedron over VOX 2x2x2 voxel solids, Polygon over P2 in "
    "both orientations and with default/explicit normals, Sphere) x placement x wave-vector alphabet: 0 and +-|q| x {coordinate "
    "axes, face normals (in-plane-zero for that face), perpendiculars to edges, generic directions, special directions tilted by "
    "1e-2} for |q| L in {1e-3, 1, 7.3, 30}; densities {1, 2.5}; one full batch, every ordered batch of length <=3 over the classes "
    "{zero, along a normal, perpendicular to an edge, axis, generic}, (1,3) singles and a batch of 50 - every returned amplitude is "
    "compared with an independent Fourier transform (signed simplices to the origin, divided differences of exp by Opitz's formula; "
    "closed forms for voxel solids and spheres).  Also: whole-number wave vectors as int64 / int32 arrays; ordered batches of length <= 2 with density 2.5.  non-trivial = distinct (shape, placement, q != 0) triple of the full batch."
)
ASSUMPTIONS = ["trusted base additionally: scipy.linalg.expm inside the reference (validated against the voxel/box closed form in every VOX case)", "'all q' replaced by the finite direction x magnitude alphabet"]
TRUSTED = ["scipy.linalg.expm (reference only)"]
BOUNDS = {"quick": {"convex": "S3(4) every 12th, S3(5) every 60th", "vox": "every 4th 2x2x2 solid", "polygon": "P2(3..5) thinned to ~150 x normals", "sphere": "9 radii x 4 centres"}, "thorough": {"convex": "S3(4) every 3rd, S3(5) every 12th", "vox": "all 2x2x2", "polygon": "~1200"}}
TOL = 1e-7
CHUNK = 2


def cases(tier):
    out = []
    q = tier == "quick"
    pq = A.placements_quick()
    for k, step in ((4, 12 if q else 3), (5, 60 if q else 12)):
        for i, S in enumerate(A.s3(k)):
            if i % step:
                continue
            out.append({"kind": "poly3", "pts": S, "cls": "ConvexPolyhedron" if (i // step) % 2 == 0 else "Polyhedron", "pl": pq[(i // step) % 8]})
    for i in range(len(A.vox((2, 2, 2)))):
        if q and i % 4:
            continue
        out.append({"kind": "vox", "i": i, "pl": pq[i % 8]})
    j = 0
    for n, step in ((3, 16 if q else 2), (4, 60 if q else 8), (5, 300 if q else 40)):
        for i, c in enumerate(A.p2_thin(n, 4)):
            if i % step:
                continue
            for nspec in (None, "+", "-"):
                out.append({"kind": "polygon", "poly": [list(p) for p in c], "start": j % n, "normal": nspec, "pl": PL3[j % 8]})
                j += 1
    for ia, r in enumerate(A.AXES):
        for k in range(4):
            out.append({"kind": "sphere", "r": r, "centre": k})
    return out


# ---------------------------------------------------------------------------
# reference Fourier transforms


_GL = None


def _gl():
    global _GL
    if _GL is None:
        x, w = np.polynomial.legendre.leggauss(32)
        _GL = ((x + 1) / 2, w / 2)
    return _GL


def dd_hermite_genocchi(z):
    """exp[z_0..z_k] = int over the standard k-simplex of exp(sum t_j z_j) dt, by a Duffy
    transform and 32-point Gauss-Legendre per dimension (|z spread| <= ~40).  Slow; only used
    for the rare nearly-confluent node sets where the Opitz/expm route loses digits."""
    z = np.asarray(z, complex)
    k = len(z) - 1
    x, w = _gl()
    if k == 2:
        u, v = np.meshgrid(x, x, indexing="ij")
        wu, wv = np.meshgrid(w, w, indexing="ij")
        t1, t2 = u * (1 - v), u * v  # Duffy: jacobian u
        val = np.exp(z[0] + t1 * (z[1] - z[0]) + t2 * (z[2] - z[0]))
        return complex(np.sum(val * u * wu * wv))
    if k == 3:
        u, v, s_ = np.meshgrid(x, x, x, indexing="ij")
        wu, wv, ws = np.meshgrid(w, w, w, indexing="ij")
        t1, t2, t3 = u * (1 - v), u * v * (1 - s_), u * v * s_  # jacobian u^2 v
        val = np.exp(z[0] + t1 * (z[1] - z[0]) + t2 * (z[2] - z[0]) + t3 * (z[3] - z[0]))
        return complex(np.sum(val * u * u * v * wu * wv * ws))
    raise ValueError(k)


def expdd(nodes, stats=None):
    """Divided difference exp[z_0..z_k] with z_j = -i * nodes[j] for a batch: nodes (k+1, nq).
    Opitz: corner entry of expm of the bidiagonal node matrix.  Nodes that coincide up to
    rounding (q exactly along a face normal / perpendicular to an edge) are snapped to exact
    confluence (where expm is accurate); the dangerous nearly-confluent zone goes to the
    Hermite-Genocchi quadrature."""
    from scipy.linalg import expm

    xs = np.array(nodes, float)
    k, nq = xs.shape
    scale = 1.0 + np.max(np.abs(xs), axis=0)
    slow = np.zeros(nq, bool)
    for a in range(k):
        for b in range(a + 1, k):
            d = np.abs(xs[a] - xs[b])
            snap = (d > 0) & (d <= 1e-11 * scale)
            xs[b, snap] = xs[a, snap]
            slow |= (d > 1e-11 * scale) & (d < 1e-6 * scale)
    Z = np.zeros((nq, k, k), complex)
    for j in range(k):
        Z[:, j, j] = -1j * xs[j]
    for j in range(k - 1):
        Z[:, j, j + 1] = 1
    out = expm(Z)[:, 0, k - 1]
    for n in np.where(slow)[0]:
        out[n] = dd_hermite_genocchi(-1j * xs[:, n])
    if stats is not None:
        stats["slow"] = stats.get("slow", 0) + int(slow.sum())
    return out


def ff_solid(V, faces, q):
    """Signed tetrahedra (c0, a, b, c) about the vertex mean c0 (keeps all nodes <= |q| L)."""
    V = np.asarray(V, float)
    c0 = V.mean(0)
    W = V - c0
    F = np.zeros(len(q), complex)
    zero = np.zeros(len(q))
    for f in faces:
        for i in range(1, len(f) - 1):
            a, b, c = W[f[0]], W[f[i]], W[f[i + 1]]
            F += np.dot(a, np.cross(b, c)) * expdd(np.array([q @ a, q @ b, q @ c, zero]))
    return F * np.exp(-1j * (q @ c0))


def ff_polygon(V, q, normal):
    """Fourier transform over the polygon's area of exp(-i q_par . r), q_par = in-plane part."""
    V = np.asarray(V, float)
    normal = np.asarray(normal, float)
    qp = q - np.outer(q @ normal, normal)
    c0 = V.mean(0)
    W = V - c0
    zero = np.zeros(len(q))
    tot = 0.0
    acc = np.zeros(len(q), complex)
    n = len(V)
    for i in range(n):
        a, b = W[i], W[(i + 1) % n]
        A2 = float(np.dot(np.cross(a, b), normal))
        tot += A2
        acc += A2 * expdd(np.array([qp @ a, qp @ b, zero]))
    sgn = 1.0 if tot > 0 else -1.0  # the transform over the region does not depend on the vertex order
    return sgn * acc * np.exp(-1j * (qp @ c0))


def ff_sphere(r, c, q):
    qn = np.linalg.norm(q, axis=1)
    x = qn * r
    out = np.empty(len(q), complex)
    small = x < 1e-3
    xs = x[small]
    out[small] = 4.0 / 3.0 * math.pi * r**3 * (1 - xs**2 / 10 + xs**4 / 280)
    xl = x[~small]
    out[~small] = 4 * math.pi * (np.sin(xl) - xl * np.cos(xl)) / qn[~small] ** 3
    return out * np.exp(-1j * (q @ np.asarray(c, float)))


def ff_voxels(cells, R, s, t, q):
    """Closed form for a union of unit cells under x -> s R x + t."""
    qb = (q @ R) * s  # wave vector in the lattice frame
    F = np.zeros(len(q), complex)
    sinc = np.prod(np.sinc(qb / 2 / np.pi), axis=1)
    for c in cells:
        ctr = np.array(c, float) + 0.5
        F += np.exp(-1j * (qb @ ctr))
    return F * sinc * s**3 * np.exp(-1j * (q @ t))


# ---------------------------------------------------------------------------


def unit(v):
    v = np.asarray(v, float)
    return v / np.linalg.norm(v)


def q_alphabet(L, normals, edges_dirs):
    gen = [unit([0.3, -0.5, 0.81]), unit([-0.62, 0.11, 0.4]), unit([0.7, 0.7, -0.2])]
    axes = [np.array([1.0, 0, 0]), np.array([0, 1.0, 0]), np.array([0, 0, 1.0])]
    nrm = [unit(n) for n in normals[:3]]
    perp = []
    for e in edges_dirs[:2]:
        p = np.cross(e, [0.31, 0.52, 0.79])
        if np.linalg.norm(p) > 1e-6:
            perp.append(unit(p))
    tilt = []
    for n in nrm[:2]:
        tdir = unit(np.cross(n, [0.3, 0.5, 0.7]))
        tilt.append(unit(n + 1e-2 * tdir))
    cls = {"axis": axes, "normal": nrm, "edgeperp": perp, "generic": gen, "tilted": tilt}
    qs = [np.zeros(3)]
    tags = ["zero"]
    for tag, ds in cls.items():
        for d in ds:
            for m in (1e-3, 1.0, 7.3, 30.0):
                for sg in (1.0, -1.0):
                    qs.append(sg * m / L * d)
                    tags.append(tag)
    reps = {"zero": np.zeros(3), "normal": 7.3 / L * nrm[0], "edgeperp": 7.3 / L * (perp[0] if perp else gen[1]), "axis": 7.3 / L * axes[1], "generic": 7.3 / L * gen[0]}
    return np.array(qs), tags, reps


def run_case(case):
    from coxeter import shapes as S

    rep = Report()
    kind = case["kind"]
    dens = [1.0, 2.5]
    if kind in ("poly3", "vox"):
        if kind == "poly3":
            P = [tuple(p) for p in case["pts"]]
            faces = [list(ext) for _, _, _, ext in X.hull_facets(P)]
            cls = case["cls"]
        else:
            v = A.vox((2, 2, 2))[case["i"]]
            P, faces, cls = [tuple(p) for p in v["verts"]], [list(f) for f in v["faces"]], "Polyhedron"
        base = np.array(P, float)
        pl = case["pl"]
        F = A.apply_placement(pl, base)
        L = float(np.max(np.linalg.norm(F[:, None] - F[None], axis=-1)))
        obj = S.ConvexPolyhedron(F.copy()) if cls == "ConvexPolyhedron" else S.Polyhedron(F.copy(), [np.array(f) for f in faces], faces_are_convex=True)
        normals = [np.cross(F[f[1]] - F[f[0]], F[f[2]] - F[f[1]]) for f in faces]
        edirs = [F[b] - F[a] for a, b in X.mesh_edges(faces)]
        Q, tags, reps = q_alphabet(L, normals, edirs)
        ref = lambda q: ff_solid(F, faces, q)  # noqa: E731
        size = abs(ff_solid(F, faces, np.zeros((1, 3)))[0].real)
        label = cls
        if kind == "vox":
            # model validation trace: Opitz reference vs voxel closed form
            Rm = np.array(A.rot_matrix(pl["rot"]))
            s = A.SCALES[pl["scale"]]
            Llat = float(np.max(np.linalg.norm(base[:, None] - base[None], axis=-1)))
            t = np.array(A.SHIFTS[pl["shift"]]) * Llat * s
            cf = ff_voxels(v["cells"], Rm, s, t, Q)
            err = np.max(np.abs(cf - ref(Q))) / size
            rep.traces += 1
            if err > 1e-10:
                rep.violation("reference", "ff_solid", "voxel-closed-form", "reference-self-check", case, "Opitz reference and voxel closed form differ by %.3g V" % err)
            else:
                rep.ok("reference-self-check")
    elif kind == "polygon":
        poly = [tuple(p) for p in case["poly"]]
        st = case["start"]
        cyc = poly[st:] + poly[:st]
        F, s, R, t = place(case, cyc)
        L = float(np.max(np.linalg.norm(F[:, None] - F[None], axis=-1)))
        o1 = X.sign(X._orient2(cyc[0], cyc[1], cyc[2]))
        nz = {None: o1, "+": 1, "-": -1}[case["normal"]]
        nvec = R @ np.array([0.0, 0.0, float(nz)])
        kw = {} if case["normal"] is None else {"normal": nvec.copy()}
        obj = S.Polygon(F.copy(), **kw)
        edirs = [F[(i + 1) % len(F)] - F[i] for i in range(len(F))]
        Q, tags, reps = q_alphabet(L, [nvec, np.cross(nvec, edirs[0]), np.cross(nvec, edirs[1])], edirs)
        ref = lambda q: ff_polygon(F, q, nvec)  # noqa: E731
        size = abs(ff_polygon(F, np.zeros((1, 3)), nvec)[0].real)
        label = "Polygon"
    else:
        r = case["r"]
        c = A.curv_centres(2 * r)[case["centre"]]
        obj = S.Sphere(r, c)
        L = 2 * r
        Q, tags, reps = q_alphabet(L, [np.array([1.0, 1, 1]), np.array([1.0, -1, 0]), np.array([0, 1.0, 2])], [np.array([1.0, 0, 0]), np.array([0, 1.0, 1])])
        ref = lambda q: ff_sphere(r, c, q)  # noqa: E731
        size = 4.0 / 3.0 * math.pi * r**3
        label = "Sphere"
    rep.states += 1
    want_all = ref(Q)
    unit_normals = [unit(n) for n in normals] if kind in ("poly3", "vox") else None

    def compare(name, qarr, want, density, raw=False):
        rep.transitions += 1
        # raw: hand the caller's object (integer array, nested list) to the library as it is
        qin = (qarr.copy() if isinstance(qarr, np.ndarray) else [list(r) for r in qarr]) if raw else np.array(qarr, float)
        keep = np.array(qin).copy()
        try:
            got = np.asarray(obj.compute_form_factor_amplitude(qin, density=density) if density != 1.0 else obj.compute_form_factor_amplitude(qin))
        except Exception as ex:
            rep.violation("fourier", label, "compute_form_factor_amplitude", "raised:" + type(ex).__name__ + ":" + name.split("[")[0], case, "%s (shape %s) raised %r" % (name, np.shape(qarr), ex))
            return
        if not np.array_equal(np.array(qin), keep):
            rep.violation("fourier", label, "compute_form_factor_amplitude", "argument-mutated", case, "q array modified")
        if got.shape != (len(qarr),):
            rep.violation("fourier", label, "compute_form_factor_amplitude", "bad-result-shape", case, "%s: result shape %s for %d wave vectors" % (name, got.shape, len(qarr)))
            return
        err = np.abs(got - density * want) / (size * density)
        # conditioning: every exact reduction of the transform to boundary terms divides by powers of
        # |q|; for |q| L << 1 rounding is amplified by (|q| L)^-3 (1e-16 -> 1e-7 at |q| L = 1e-3).  The
        # tolerance is 1e-7 V for |q| L >= 0.01 and grows to 1e-4 V at |q| L = 1e-3; q = 0 is exact.
        aq = np.linalg.norm(np.asarray(qarr, float), axis=1) * L
        tolq = TOL * np.where(aq > 0, 1.0 + (1e-2 / np.maximum(aq, 1e-300)) ** 3, 1.0)
        rep.peak(label, float(np.max(err / tolq)) if np.all(np.isfinite(err)) else 1e9)
        badi = np.where(~(err <= tolq))[0]
        rep.traces += 1
        if name == "full-batch" and density == 1.0:
            # distinct (shape, placement, q != 0) triples; the batches below re-use five of them
            rep.nontrivial += int(np.sum(np.any(np.asarray(qarr) != 0, axis=1)))
        if len(badi) == 0:
            rep.ok("amplitude", len(qarr))
            return
        def classify(i):
            g, w = got[i], density * want[i]
            if density != 1.0 and abs(g - w / density) <= TOL * size:
                return "density-ignored"
            if abs(g + w) <= TOL * size * density:
                return "sign-flipped"
            if np.all(np.asarray(qarr)[i] == 0):
                return "wrong-at-zero"
            if abs(g - size * density) <= 1e-12 * size * density:
                return "zero-branch-taken"
            if unit_normals is not None:
                # bug model of the recorded finding F-C12-near-normal: the two-fold Stokes formula divides by
                # the squared in-plane component of q for every face; for |q| L <= 1e-2 and q within 3 degrees
                # of (but not exactly along) a face normal, rounding is amplified to at most a few percent
                qq = np.asarray(qarr)[i]
                a_ = float(np.linalg.norm(qq)) * L
                if 0 < a_ <= 1.0001e-2:
                    pm = min(float(np.linalg.norm(qq - (qq @ n) * n)) * L for n in unit_normals)
                    if 1e-12 * a_ < pm <= 0.05 * a_ and float(err[i]) <= 0.05:
                        return "near-normal-small-q-precision"
            return "mismatch"

        seen_modes = set()
        for i in [int(x) for x in badi]:
            mode = classify(i)
            if mode in seen_modes:
                continue
            seen_modes.add(mode)
            g, w = got[i], density * want[i]
            rep.violation("fourier", label, "compute_form_factor_amplitude", mode, case, "%s: q=%s (|q|L=%.3g) density=%g: got %r, Fourier transform is %r (|err|/V=%.3g > %.1g); %d of %d wrong" % (name, np.asarray(qarr)[i].tolist(), float(np.linalg.norm(np.asarray(qarr)[i]) * L), density, complex(g), complex(w), float(err[i]), TOL, len(badi), len(qarr)), expected=complex(w), got=complex(g))

    for d in dens:
        compare("full-batch", Q, want_all, d)
    compare("batch-50", Q[:50], want_all[:50], 1.0)
    names = ["zero", "normal", "edgeperp", "axis", "generic"]
    rq = np.array([reps[n] for n in names])
    rw = ref(rq)
    for ln in (1, 2, 3):
        for combo in itertools.product(range(5), repeat=ln):
            combo = list(combo)
            compare("ordered-batch[" + ",".join(names[c] for c in combo) + "]", rq[combo], rw[combo], 1.0)
            if ln <= 2:
                compare("ordered-batch[" + ",".join(names[c] for c in combo) + "]", rq[combo], rw[combo], 2.5)
    # input forms: whole-number wave vectors as an integer array / nested lists of Python ints (a user types
    # [[1, 0, 0]]) must give what the same vectors give as floats
    qi = np.array([[1, 0, 0], [0, 2, 0], [0, 0, -3], [1, -1, 2], [0, 0, 0], [2, 2, 1]], dtype=np.int64)
    qs = max(1, int(round(3.0 / L))) if L > 0 else 1
    qi = qi * qs
    wi = ref(qi.astype(float))
    compare("int64-wave-vectors", qi, wi, 1.0, raw=True)
    compare("int32-wave-vectors", qi.astype(np.int32), wi, 2.5, raw=True)  # (nested lists are not accepted by the polyhedron classes: documented as ndarray)
    rep.sample({"case": case, "nq": int(len(Q)), "F0": size})
    return rep
