"""C13 - bounding, bounded, circum- and in-spheres/circles satisfy their definitions.
Engines: E2 (definitions over the shape alphabets, exact smallest enclosing ball) and E3
(every fault schedule of the retry loop and every pivot schedule of miniball up to a
deviation bound)."""
import collections
import itertools
import math
from fractions import Fraction as Fr

import numpy as np

from .. import alphabet as A
from .. import e3
from .. import exact as X
from .. import families_alpha as FA
from ..common import Report
from .c04 import PL3, place

PROPERTY = "C13"
ENGINE = "E2+E3"
TECHNIQUE = "bounded-exhaustive definition checks with exact smallest enclosing ball, plus stateless choice-point exploration (iterative deviation bounding) of miniball pivots and of every fault/rotation schedule of the retry loop"
RULE = (
    "E2: cases = shape (ConvexPolyhedron/Polyhedron over S3 lattice hulls and FAM solids, ConvexPolygon/Polygon over CP2/P2/"
    "rectangles/kites/regular n-gons, all curved shapes) x placement; every ball property is checked against its definition with "
    "exact data: minimal bounding ball = exact smallest enclosing ball (brute force over support sets, rational), centred balls "
    "from the exact centroid, circum-/in-balls verified directly (every vertex on it / every face tangent from inside) and a "
    "RuntimeError accepted only when an exact/margin-separated classifier says none exists.  E3: for off-origin shapes every "
    "fault schedule of the retry loop (0..11 injected LinAlgError x every rotation sequence over a 2-element alphabet) and every "
    "pivot schedule of the real miniball with at most `bound` deviations from the default pivot is executed through the public "
    "property; expected = the exact ball for < 10 failures, RuntimeError from 10.  Also: placements at extreme sizes; every pivot order with <= 3 (thorough 4) deviations on 5-point lattice sets at sizes 1e-3 and 1e-6 (miniball's absolute tolerance).  non-trivial = execution with a non-default "
    "schedule or a non-identity placement."
)
ASSUMPTIONS = ["E3 owns miniball.random.choice, miniball.get_bounding_ball and rowan.random.rand (module attributes)", "in-ball existence classifier is margin-separated in floats (residual < 1e-10 L = exists, > 1e-3 L = none, otherwise skipped)"]
BOUNDS = {"quick": {"E2": "S3(4) every 2nd, S3(5) every 8th, FAM; CP2/P2 thinned", "E3-fault": "failures 0..11 x all rotation sequences (4095 schedules) on 2 shapes", "E3-pivot": "deviation bound 1 on 6 shapes, bound 2 on 2 shapes"}, "thorough": {"E3-pivot": "bound 2 on all, bound 3 on 2 shapes"}}
CHUNK = 8
TOLB = 1e-5  # miniball's own epsilon is 1e-7


def cases(tier):
    out = []
    q = tier == "quick"
    pq = A.placements_quick()
    for k, step in ((4, 2 if q else 1), (5, 8 if q else 2)):
        for i, S in enumerate(A.s3(k)):
            if i % step:
                continue
            out.append({"kind": "poly3", "pts": S, "cls": "ConvexPolyhedron" if i % 2 == 0 else "Polyhedron", "pl": pq[i % 8]})
            if k == 5 and (i // step) % 4 == 0:
                # absolute tolerances (miniball's epsilon = 1e-7 on squared distances) only show at extreme sizes
                tp = A.placements_tiny() + [A.placement("L6", "s1e-3", "t10u")]
                out.append({"kind": "poly3", "pts": S, "cls": "ConvexPolyhedron" if i % 3 == 0 else "Polyhedron", "pl": tp[(i // step // 4) % len(tp)]})
    names = sorted(n for f, n, v in [(f, f + ":" + n, v) for f, n, v in FA.generated() + FA.tabulated()] if not n.startswith("science") and not n.startswith("johnson"))
    for i, n in enumerate(names):
        out.append({"kind": "tab3", "name": n, "pl": pq[i % 8]})
    # boxes (cyclic, not tangential) and other special solids
    for dims in ((1, 1, 1), (2, 1, 1), (3, 2, 1)):
        for j in range(3):
            out.append({"kind": "box", "dims": list(dims), "pl": pq[(sum(dims) + 3 * j) % 8]})
    # "any rigid placement": mildly non-tangential / non-cyclic shapes very far from the origin (an existence
    # test relative to the distance from the origin would accept them there)
    for dims in ((1, 1, 1.02), (1, 1, 1.2), (1, 1, 1), (3, 2, 1)):
        for far in (200.0, 2000.0):
            out.append({"kind": "farbox", "dims": list(dims), "far": far})
    for nm in ("rect-1x1.02", "rect-1x1.2", "square", "kite"):
        for far in (200.0, 2000.0):
            out.append({"kind": "farpoly", "name": nm, "far": far})
    polys = []
    for n in (3, 4, 5):
        for i, c in enumerate(A.p2_thin(n, 4)):
            if i % ((3 if n == 3 else 12 if n == 4 else 60) if q else (1 if n == 3 else 3 if n == 4 else 12)):
                continue
            polys.append(c)
    for i, c in enumerate(polys):
        out.append({"kind": "poly2", "poly": [list(p) for p in c], "pl": PL3[i % 8]})
        if i % 6 == 0:
            tp = A.placements_tiny() + [A.placement("L6", "s1e-3", "t10u")]
            out.append({"kind": "poly2", "poly": [list(p) for p in c], "pl": tp[(i // 6) % len(tp)]})
    special = {
        "rect31": [(0, 0), (3, 0), (3, 1), (0, 1)],
        "square": [(0, 0), (2, 0), (2, 2), (0, 2)],
        "kite": [(0, 0), (2, -1), (5, 0), (2, 1)],
        "rhombus": [(0, 0), (2, -1), (4, 0), (2, 1)],
        "trapezoid": [(0, 0), (4, 0), (3, 1), (1, 1)],
        "righttri": [(0, 0), (4, 0), (0, 3)],
    }
    for i, (nm, c) in enumerate(special.items()):
        for j in range(3):
            out.append({"kind": "poly2", "poly": [list(p) for p in c], "pl": PL3[(i + 3 * j) % 8], "name": nm})
    for n in range(3, 13):
        out.append({"kind": "ngon", "n": n, "pl": PL3[n % 8]})
    # plain Polygons whose vertices run CLOCKWISE about an explicitly given normal (negative signed area): the balls are
    # the same sets
    for i, (nm, c) in enumerate(special.items()):
        out.append({"kind": "poly2", "poly": [list(p) for p in c], "pl": PL3[(i + 5) % 8], "name": nm, "negnormal": True})
    for n in (3, 4, 5, 8):
        out.append({"kind": "ngon", "n": n, "pl": PL3[(n + 3) % 8], "negnormal": True})
    for ia, a in enumerate(A.AXES):
        for k in range(2):
            out.append({"kind": "curved", "cls": "Circle", "axes": [a], "centre": (ia + k) % 4})
            out.append({"kind": "curved", "cls": "Sphere", "axes": [a], "centre": (ia + k) % 4})
        for ib, b in enumerate(A.AXES):
            out.append({"kind": "curved", "cls": "Ellipse", "axes": [a, b], "centre": (ia + ib) % 4})
            for ic, c in enumerate(A.AXES):
                if (ia + ib + ic) % (3 if q else 1) == 0:
                    out.append({"kind": "curved", "cls": "Ellipsoid", "axes": [a, b, c], "centre": (ia + ib + ic) % 4})
    # E3
    e3shapes = ["ConvexPolyhedron/chiral", "Polyhedron/lattice", "ConvexPolyhedron/tab", "Polygon/chiral", "ConvexPolygon/lattice", "Polygon/xy", "ConvexPolyhedron/tiny", "Polygon/tiny"]
    for nm in e3shapes[:2] + e3shapes[3:4]:
        for k in range(0, 12):
            out.append({"kind": "e3-fault", "base": nm, "failures": k})
    for i, nm in enumerate(e3shapes):
        b = 1 if q else 2
        if nm in ("ConvexPolyhedron/chiral", "Polygon/chiral"):
            b += 1
        out.append({"kind": "e3-pivot", "base": nm, "bound": b})
    # every pivot order up to 4 deviations on 5-point sets at sizes 1e-3 and 1e-6 (all points may become support
    # points, which is where miniball applies its absolute epsilon)
    # (the first set is the one on which miniball was seen to return a ball that misses a vertex)
    s5 = [[[0, 0, 1], [0, 1, 0], [0, 1, 2], [2, 0, 1], [2, 1, 0]]] + [S5 for i, S5 in enumerate(A.s3(5)) if i % (100 if q else 8) == 0]
    for S5 in s5:
        for pl in (A.placement("L6", "s1e-3", "t10u"), A.placement("I", "s1e-6", "t0")):
            out.append({"kind": "e3-pivot", "base": {"pts": [list(p) for p in S5], "pl": pl}, "bound": 3 if q else 4})
    return out


# ---------------------------------------------------------------------------


def exact_meb(F):
    """Exact smallest enclosing ball (rational brute force) for <= 12 points; None otherwise."""
    if len(F) > 12:
        return None
    P = [tuple(Fr(float(x)) for x in p) for p in F]
    c, r2 = X.min_enclosing_ball(P)
    return np.array([float(x) for x in c]), math.sqrt(float(r2))


def meb_certificate(V, c, r, L):
    """Optimality certificate for larger point sets: a bounding ball is the smallest one iff its
    centre is a convex combination of the points on its boundary (KKT).  -> residual / L."""
    from scipy.optimize import nnls

    d = np.linalg.norm(V - c, axis=1)
    sup = V[d >= r - 1e-6 * L]
    if len(sup) == 0:
        return float("inf")
    w = 1e3  # weight of the sum-to-one constraint
    Amat = np.vstack([(sup - c).T / L, w * np.ones((1, len(sup)))])
    rhs = np.concatenate([np.zeros(V.shape[1]), [w]])
    lam, res = nnls(Amat, rhs)
    return float(res)


def ball_of(shape):
    return np.asarray(shape.centroid, float).reshape(-1), float(shape.radius)


def run_case(case):
    kind = case["kind"]
    if kind.startswith("e3"):
        return run_e3(case)
    if kind == "curved":
        return run_curved(case)
    return run_vertex_based(case)


def run_curved(case):
    from coxeter import shapes as S

    rep = Report()
    cls, ax = case["cls"], case["axes"]
    cen = A.curv_centres(2 * max(ax))[case["centre"]]
    obj = getattr(S, cls)(*ax, cen)
    rep.states += 1
    rep.traces += 1
    rep.nontrivial += 1 if (case["centre"] or len(set(ax)) > 1) else 0
    three = cls in ("Sphere", "Ellipsoid")
    suffix = "sphere" if three else "circle"
    want = {"minimal_bounding_" + suffix: max(ax), "minimal_centered_bounding_" + suffix: max(ax), "maximal_bounded_" + suffix: min(ax), "maximal_centered_bounded_" + suffix: min(ax)}
    for name, r in want.items():
        rep.transitions += 1
        try:
            b = getattr(obj, name)
            c, rr = ball_of(b)
            okc = np.max(np.abs(c - np.array(cen, float))) <= 1e-12 * (1 + np.max(np.abs(cen)))
            if abs(rr - r) <= 1e-12 * r and okc and type(b).__name__ == ("Sphere" if three else "Circle"):
                rep.ok(name)
            else:
                rep.violation("balls", cls, name, "mismatch", case, "%s = %s(radius=%r, centre=%s); expected radius %r centre %s" % (name, type(b).__name__, rr, c.tolist(), r, list(cen)))
            rr2 = float(getattr(obj, name + "_radius"))
            if abs(rr2 - r) > 1e-12 * r:
                rep.violation("balls", cls, name + "_radius", "mismatch", case, "%s_radius=%r expected %r" % (name, rr2, r))
        except NotImplementedError as ex:
            rep.violation("balls", cls, name, "not-implemented", case, "%s.%s raises NotImplementedError" % (cls, name))
        except Exception as ex:
            rep.violation("balls", cls, name, "raised:" + type(ex).__name__, case, repr(ex))
    return rep


def run_vertex_based(case):
    from coxeter import shapes as S

    rep = Report()
    kind = case["kind"]
    three = kind in ("poly3", "tab3", "box", "farbox")
    lattice = None
    if kind == "poly3":
        lattice = [tuple(p) for p in case["pts"]]
        F = A.apply_placement(case["pl"], np.array(lattice, float))
        cls = case["cls"]
    elif kind == "tab3":
        tab = {f + ":" + n: v for f, n, v in FA.generated() + FA.tabulated()}
        F = A.apply_placement(case["pl"], np.array(tab[case["name"]], float))
        cls = "ConvexPolyhedron"
    elif kind == "box":
        a, b, c = case["dims"]
        lattice = [(x, y, z) for x in (0, a) for y in (0, b) for z in (0, c)]
        F = A.apply_placement(case["pl"], np.array(lattice, float))
        cls = "ConvexPolyhedron"
    elif kind == "farbox":
        a, b, c = case["dims"]
        base = np.array([(x, y, z) for x in (0, a) for y in (0, b) for z in (0, c)], float)
        R = np.array(A.rot_matrix("q1234"))
        F = base @ R.T + case["far"] * np.array([3.0, -2.0, 5.0]) / math.sqrt(38.0) * 1.7
        cls = "ConvexPolyhedron" if case["far"] < 1000 else "Polyhedron"
        lattice = None
    elif kind == "farpoly":
        base = {"rect-1x1.02": [(0, 0), (1, 0), (1, 1.02), (0, 1.02)], "rect-1x1.2": [(0, 0), (1, 0), (1, 1.2), (0, 1.2)], "square": [(0, 0), (1, 0), (1, 1), (0, 1)], "kite": [(0, 0), (2, -1), (5, 0), (2, 1)]}[case["name"]]
        R = np.array(A.rot_matrix("q2-153"))
        F = np.array([[x, y, 0.0] for x, y in base]) @ R.T + case["far"] * np.array([3.0, -2.0, 5.0]) / math.sqrt(38.0) * 1.5
        cls = "ConvexPolygon"
    elif kind == "poly2":
        poly = [tuple(p) for p in case["poly"]]
        F, s, R, t = place(case, poly)
        ccw = poly if X.shoelace2(poly) > 0 else poly[::-1]
        cls = "ConvexPolygon" if X.is_convex_ccw(ccw) else "Polygon"
    else:
        poly = A.regular_ngon(case["n"], 0.3)
        F, s, R, t = place(case, poly)
        cls = "ConvexPolygon"
    L = float(np.max(np.linalg.norm(F[:, None] - F[None], axis=-1)))
    D = L + float(np.linalg.norm(F.mean(0)))
    rep.states += 1
    rep.traces += 1
    rep.nontrivial += 1
    try:
        if three:
            if cls == "ConvexPolyhedron":
                obj = S.ConvexPolyhedron(F.copy())
                faces = [list(map(int, f)) for f in obj.faces] if lattice is None else [list(ext) for _, _, _, ext in X.hull_facets(lattice)]
            else:
                if lattice is None:
                    lattice = [tuple(int(round(x * 100)) for x in p) for p in base]  # farbox: exact structure from the unplaced box
                faces = [list(ext) for _, _, _, ext in X.hull_facets(lattice)]
                obj = S.Polyhedron(F.copy(), [np.array(f) for f in faces], faces_are_convex=True)
        elif case.get("negnormal"):
            cls = "Polygon"
            nd = np.cross(F[2] - F[1], F[0] - F[1])
            obj = S.Polygon(F.copy(), normal=-nd)
        else:
            obj = getattr(S, cls)(F.copy())
    except Exception as ex:
        rep.violation("construct", cls, "__init__", "raised:" + type(ex).__name__, case, repr(ex))
        return rep
    V = np.asarray(obj.vertices, float)
    suffix = "sphere" if three else "circle"

    def prop(name):
        rep.transitions += 1
        try:
            b = getattr(obj, name)
            return "ok", b
        except NotImplementedError:
            return "ni", None
        except RuntimeError as ex:
            return "RuntimeError", ex
        except Exception as ex:
            return type(ex).__name__, ex

    # ---- minimal bounding ball
    name = "minimal_bounding_" + suffix
    st, b = prop(name)
    if st == "ok":
        meb = exact_meb(V)
        c, r = ball_of(b)
        dist = np.linalg.norm(V - c, axis=1)
        if c.shape != (3,):
            rep.violation("balls", cls, name, "bad-centre-shape", case, "%s centre has shape %s" % (name, c.shape))
        elif dist.max() > r + TOLB * L:
            rep.violation("balls", cls, name, "not-bounding", case, "%s misses a vertex by %.3g L" % (name, (dist.max() - r) / L))
        elif meb is not None and (abs(r - meb[1]) > TOLB * L or np.linalg.norm(c - meb[0]) > 30 * TOLB * L):
            rep.violation("balls", cls, name, "not-minimal", case, "%s radius %r centre %s; smallest enclosing ball has radius %r centre %s" % (name, r, c.tolist(), meb[1], meb[0].tolist()))
        elif meb is None and meb_certificate(V, c, r, L) > 1e-3:
            rep.violation("balls", cls, name, "not-minimal", case, "%s (radius %r) is bounding but its centre is not a convex combination of the boundary points (KKT residual %.3g)" % (name, r, meb_certificate(V, c, r, L)))
        else:
            rep.ok(name)
    elif st != "ni":
        rep.violation("balls", cls, name, "raised:" + st, case, "%s raised %r" % (name, b))
    # ---- centred balls
    cen = None
    try:
        cen = np.asarray(obj.centroid, float)
    except Exception:
        pass
    name = "minimal_centered_bounding_" + suffix
    st, b = prop(name)
    if st == "ok" and cen is not None:
        c, r = ball_of(b)
        want = np.linalg.norm(V - cen, axis=1).max()
        if np.linalg.norm(c - cen) > 1e-9 * D or abs(r - want) > 1e-9 * D:
            rep.violation("balls", cls, name, "mismatch", case, "%s radius %r centre %s; expected radius %r at the centroid %s" % (name, r, c.tolist(), want, cen.tolist()))
        else:
            rep.ok(name)
    elif st not in ("ni", "ok"):
        rep.violation("balls", cls, name, "raised:" + st, case, "%s raised %r" % (name, b))
    name = "maximal_centered_bounded_" + suffix
    st, b = prop(name)
    if st == "ok" and cen is not None:
        c, r = ball_of(b)
        if three:
            d = []
            for f in faces:
                n = np.cross(V[f[1]] - V[f[0]], V[f[2]] - V[f[1]])
                n /= np.linalg.norm(n)
                d.append(abs(float(n @ (cen - V[f[0]]))))
            want = min(d)
        else:
            d = []
            for i in range(len(V)):
                a, bb = V[i], V[(i + 1) % len(V)]
                e = (bb - a) / np.linalg.norm(bb - a)
                d.append(float(np.linalg.norm(np.cross(cen - a, e))))
            want = min(d)
        if np.linalg.norm(c - cen) > 1e-9 * D or abs(r - want) > 1e-9 * D:
            rep.violation("balls", cls, name, "mismatch", case, "%s radius %r; distance from the centroid to the nearest face/edge is %r" % (name, r, want))
        else:
            rep.ok(name)
    elif st not in ("ni", "ok"):
        rep.violation("balls", cls, name, "raised:" + st, case, "%s raised %r" % (name, b))
    # ---- circumscribed ball
    name = "circum" + suffix
    st, b = prop(name)
    # classifier: least-squares sphere through the vertices (float, margin separated)
    A_ = np.hstack([2 * (V - V[0]), np.ones((len(V), 1))])[:, : (4 if three else 4)]
    if not three:
        # restrict to the polygon's plane: parametrise by two in-plane axes
        n = np.asarray(obj.normal, float)
        u = V[1] - V[0]
        u /= np.linalg.norm(u)
        w = np.cross(n, u)
        P2 = np.stack([(V - V[0]) @ u, (V - V[0]) @ w], axis=1)
        M = np.hstack([2 * P2, np.ones((len(V), 1))])
        rhs = np.sum(P2 * P2, axis=1)
    else:
        P3 = V - V[0]
        M = np.hstack([2 * P3, np.ones((len(V), 1))])
        rhs = np.sum(P3 * P3, axis=1)
    sol, *_ = np.linalg.lstsq(M, rhs, rcond=None)
    cc = sol[:-1]
    pts = P3 if three else P2
    rr = np.sqrt(max(sol[-1] + cc @ cc, 0.0))
    dev = np.max(np.abs(np.linalg.norm(pts - cc, axis=1) - rr)) / L
    exists = True if dev < 1e-11 else (False if dev > 1e-3 else None)
    if st == "ok":
        c, r = ball_of(b)
        dist = np.linalg.norm(V - c, axis=1)
        if np.max(np.abs(dist - r)) > 1e-7 * L:
            rep.violation("balls", cls, name, "returned-ball-violates-definition", case, "%s (r=%r) misses vertices by up to %.3g L (best-fit sphere deviates by %.3g L)" % (name, r, np.max(np.abs(dist - r)) / L, dev))
        elif not three and abs(float(np.asarray(obj.normal, float) @ (c - V[0]))) > 1e-7 * L:
            rep.violation("balls", cls, name, "centre-out-of-plane", case, "%s centre is %.3g L out of the polygon's plane (radius %r; the in-plane circumradius is %r)" % (name, abs(float(np.asarray(obj.normal, float) @ (c - V[0]))) / L, r, rr))
        elif exists is True and abs(r - rr) > 1e-7 * L:
            rep.violation("balls", cls, name, "wrong-radius", case, "%s radius %r, the sphere/circle through the vertices has radius %r" % (name, r, rr))
        else:
            rep.ok(name + ":exists")
    elif st == "RuntimeError":
        if exists is True:
            rep.violation("balls", cls, name, "raised-although-exists", case, "%s raised RuntimeError but all vertices lie on a common sphere/circle (deviation %.3g L)" % (name, dev))
        elif exists is None:
            rep.skip("circum-ambiguous")
        else:
            rep.ok(name + ":none")
    elif st != "ni":
        rep.violation("balls", cls, name, "raised:" + st, case, "%s raised %r" % (name, b))
    # ---- inscribed ball
    name = "in" + suffix
    st, b = prop(name)
    if three:
        planes = []
        for f in faces:
            n = np.cross(V[f[1]] - V[f[0]], V[f[2]] - V[f[1]])
            n /= np.linalg.norm(n)
            planes.append((n, float(n @ V[f[0]])))
    else:
        nrm = np.asarray(obj.normal, float)
        ccw_sign = 1.0 if float(obj.signed_area) > 0 else -1.0
        planes = []
        for i in range(len(V)):
            a, bb = V[i], V[(i + 1) % len(V)]
            n = ccw_sign * np.cross(bb - a, nrm)
            n /= np.linalg.norm(n)
            planes.append((n, float(n @ a)))
    # tangential classifier: centre x, radius r with n_i.x + r = d_i  (in-plane for polygons)
    if three:
        M = np.array([list(n) + [1.0] for n, d in planes])
        rhs = np.array([d for n, d in planes])
    else:
        M = np.array([list(n) + [1.0] for n, d in planes] + [list(nrm) + [0.0]])
        rhs = np.array([d for n, d in planes] + [float(nrm @ V[0])])
    sol, *_ = np.linalg.lstsq(M, rhs, rcond=None)
    res = np.max(np.abs(M @ sol - rhs)) / L
    tang = True if res < 1e-11 else (False if res > 1e-3 else None)
    convex = cls in ("ConvexPolyhedron", "ConvexPolygon") or kind == "poly3"
    if st == "ok":
        c, r = ball_of(b)
        dd = np.array([d - float(n @ c) for n, d in planes])  # distance from centre to each face plane, inside positive
        if convex and not three and abs(float(nrm @ (c - V[0]))) > 1e-7 * L:
            rep.violation("balls", cls, name, "centre-out-of-plane", case, "%s centre is %.3g L out of the polygon's plane" % (name, abs(float(nrm @ (c - V[0]))) / L))
        elif convex and (np.max(np.abs(dd - r)) > 1e-7 * L or r <= 0):
            rep.violation("balls", cls, name, "returned-ball-violates-definition", case, "%s (r=%r) is not tangent to every face from inside: centre-to-face distances %s (tangential residual %.3g L)" % (name, r, np.round(dd, 9).tolist(), res))
        elif convex:
            rep.ok(name + ":exists")
        else:
            rep.skip("inball-of-nonconvex-not-pinned")
    elif st == "RuntimeError":
        if tang is True and convex:
            rep.violation("balls", cls, name, "raised-although-exists", case, "%s raised RuntimeError but the shape is tangential (residual %.3g L)" % (name, res))
        elif tang is None:
            rep.skip("in-ambiguous")
        else:
            rep.ok(name + ":none")
    elif st != "ni":
        rep.violation("balls", cls, name, "raised:" + st, case, "%s raised %r" % (name, b))
    # ---- the *_radius accessors are the radii of the balls above: same value, and RuntimeError exactly when the ball raises
    from .. import e1 as _e1

    for bname in ("minimal_bounding_", "minimal_centered_bounding_", "maximal_bounded_", "maximal_centered_bounded_"):
        names_rb = [bname + suffix]
        for nm in names_rb + ["circum" + suffix, "in" + suffix]:
            if nm in ("circum" + suffix, "in" + suffix) and bname != "minimal_bounding_":
                continue
            _e1._reseed()
            st1, b1 = prop(nm)
            _e1._reseed()
            st2, r2 = prop(nm + "_radius")
            if "ni" in (st1, st2) or st1 == "AttributeError" or st2 == "AttributeError":
                continue
            if st1 == "ok" and st2 == "ok":
                r1 = float(ball_of(b1)[1])
                if abs(float(r2) - r1) <= 1e-6 * max(r1, 1e-300):
                    rep.ok(nm + "_radius")
                else:
                    rep.violation("balls", cls, nm + "_radius", "differs-from-ball", case, "%s_radius = %r but %s has radius %r" % (nm, float(r2), nm, r1))
            elif st1 == st2:
                rep.ok(nm + "_radius:" + st1)
            else:
                rep.violation("balls", cls, nm + "_radius", "accessor-and-ball-disagree", case, "%s -> %s but %s_radius -> %s" % (nm, st1, nm, st2 if st2 != "ok" else repr(float(r2))))
    rep.sample({"case": case, "cls": cls, "cyclic": exists, "tangential": tang})
    return rep


# ---------------------------------------------------------------------------
# E3


def run_e3(case):
    from .. import e1

    rep = Report()
    if isinstance(case["base"], dict):
        # a lattice point set under a placement (extreme sizes: miniball's tolerances are absolute)
        from coxeter import shapes as S

        obj = S.ConvexPolyhedron(A.apply_placement(case["base"]["pl"], np.array(case["base"]["pts"], float)))
    else:
        obj = e1.make_base(case["base"])
    three = not hasattr(obj, "normal")
    name = "minimal_bounding_sphere" if three else "minimal_bounding_circle"
    V = np.asarray(obj.vertices, float)
    L = float(np.max(np.linalg.norm(V[:, None] - V[None], axis=-1)))
    cref, rref = exact_meb(V)
    cls = type(obj).__name__

    def outcome(fn):
        try:
            b = fn()
            c, r = ball_of(b)
            if c.shape != (3,):
                return ("bad-centre-shape", str(c.shape))
            if abs(r - rref) <= TOLB * L and np.linalg.norm(c - cref) <= 30 * TOLB * L:
                return ("exact-ball",)
            return ("wrong-ball", round(r / rref, 4), round(float(np.linalg.norm(c - cref)) / L, 4))
        except RuntimeError:
            return ("RuntimeError",)
        except Exception as ex:
            return ("raised:" + type(ex).__name__,)

    if case["kind"] == "e3-fault":
        k = case["failures"]
        nrot = min(k, 10)
        seqs = list(itertools.product((0, 1), repeat=nrot))
        outs = collections.Counter()
        for seq in seqs:
            with e3.owned_seams(chooser=e3.Chooser(()), fail_first=k, rotations=seq):
                o = outcome(lambda: getattr(obj, name))
            rep.states += 1
            rep.transitions += k + 1
            rep.traces += 1
            if k or any(seq):
                rep.nontrivial += 1
            want = ("exact-ball",) if k < 10 else ("RuntimeError",)
            outs[o] += 1
            if o == want:
                rep.ok("fault-schedule:" + want[0])
            else:
                rep.violation("schedule", cls, name, "after-%s-failures:%s" % ("1-9" if 0 < k < 10 else k, o[0]), case, "%d injected LinAlgError, rotation schedule %s: outcome %s, expected %s" % (k, list(seq), o, want), schedule=list(seq))
        rep.sample({"case": case, "schedules": len(seqs), "outcomes": {str(a): b for a, b in outs.items()}})
        return rep
    # pivot exploration through the public property, real miniball
    def run(ch):
        with e3.owned_seams(chooser=ch):
            return outcome(lambda: getattr(obj, name))

    res, cut = e3.explore_pivots(run, case["bound"], limit=60000)
    outs = collections.Counter(o for _, o in res)
    rep.states += len(res)
    rep.traces += len(res)
    rep.transitions += sum(len(t) for t, _ in res)
    rep.nontrivial += sum(1 for t, _ in res if any(t))
    if cut:
        rep.extra["pivot_exploration_cut_at_limit"] += 1
    bad = [(t, o) for t, o in res if o != ("exact-ball",)]
    rep.ok("pivot-schedule:exact-ball", len(res) - len(bad))
    seen = set()
    for t, o in sorted(bad, key=lambda x: (sum(1 for c in x[0] if c), len(x[0]))):
        if o[0] in seen:
            continue
        seen.add(o[0])
        rep.violation("schedule", cls, name, "pivot-schedule:" + o[0], case, "pivot schedule %s (deviations=%d): outcome %s, expected the exact smallest enclosing ball (%d of %d schedules differ)" % (list(t), sum(1 for c in t if c), o, len(bad), len(res)), schedule=list(t))
    rep.sample({"case": case, "executions": len(res), "outcomes": {str(a): b for a, b in outs.items()}})
    return rep
