"""Small strict parsers for the seven export formats, written from the format
specifications (not from coxeter.io).  Each returns (vertices [list of float triples],
faces [list of index lists]) or raises FormatError."""
import re
from xml.etree import ElementTree


class FormatError(Exception):
    pass


def _f(tok):
    try:
        return float(tok)
    except ValueError:
        raise FormatError("not a number: %r" % tok)


def _i(tok):
    if not re.fullmatch(r"[+-]?\d+", tok):
        raise FormatError("not an integer: %r" % tok)
    return int(tok)


def parse_obj(text):
    V, F = [], []
    for ln in text.split("\n"):
        s = ln.strip()
        if not s or s.startswith("#"):
            continue
        t = s.split()
        if t[0] == "v":
            if len(t) not in (4, 5):
                raise FormatError("v line needs 3 (or 4) coordinates: %r" % ln)
            V.append(tuple(_f(x) for x in t[1:4]))
        elif t[0] == "f":
            if len(t) < 4:
                raise FormatError("face with fewer than 3 vertices: %r" % ln)
            idx = []
            for x in t[1:]:
                i = _i(x.split("/")[0])
                if i == 0:
                    raise FormatError("OBJ indices are 1-based; found 0")
                idx.append(i - 1 if i > 0 else len(V) + i)
            F.append(idx)
        elif t[0] in ("vn", "vt", "g", "o", "s", "usemtl", "mtllib"):
            continue
        else:
            raise FormatError("unknown OBJ statement: %r" % ln)
    for f in F:
        if any(i < 0 or i >= len(V) for i in f):
            raise FormatError("face index out of range")
    return V, F


def parse_off(text):
    lines = [ln.split("#")[0].strip() for ln in text.split("\n")]
    lines = [ln for ln in lines if ln]
    if not lines or lines[0] != "OFF":
        raise FormatError("first line must be OFF")
    t = lines[1].split()
    if len(t) != 3:
        raise FormatError("counts line must hold three integers: %r" % lines[1])
    nv, nf, ne = (_i(x) for x in t)
    body = lines[2:]
    if len(body) != nv + nf:
        raise FormatError("expected %d vertex + %d face lines, found %d" % (nv, nf, len(body)))
    V = []
    for ln in body[:nv]:
        c = ln.split()
        if len(c) != 3:
            raise FormatError("vertex line: %r" % ln)
        V.append(tuple(_f(x) for x in c))
    F = []
    for ln in body[nv:]:
        c = [_i(x) for x in ln.split()]
        if len(c) != c[0] + 1 or c[0] < 3:
            raise FormatError("face line: %r" % ln)
        if any(i < 0 or i >= nv for i in c[1:]):
            raise FormatError("face index out of range")
        F.append(c[1:])
    return V, F, ne


def parse_ply(text):
    lines = text.split("\n")
    if lines[0].strip() != "ply":
        raise FormatError("magic")
    if lines[1].strip() != "format ascii 1.0":
        raise FormatError("format line: %r" % lines[1])
    i = 2
    elems = []
    while True:
        if i >= len(lines):
            raise FormatError("no end_header")
        s = lines[i].strip()
        i += 1
        if s == "end_header":
            break
        t = s.split()
        if not t:
            raise FormatError("blank header line")
        if t[0] == "comment" or t[0] == "obj_info":
            continue
        if t[0] == "element":
            elems.append([t[1], _i(t[2]), []])
        elif t[0] == "property":
            if not elems:
                raise FormatError("property before element")
            elems[-1][2].append(t[1:])
        else:
            raise FormatError("unknown header line: %r" % s)
    body = [ln.strip() for ln in lines[i:]]
    while body and body[-1] == "":
        body.pop()
    V, F = [], []
    pos = 0
    for name, n, props in elems:
        rows = body[pos : pos + n]
        if len(rows) != n:
            raise FormatError("element %s: expected %d rows" % (name, n))
        pos += n
        if name == "vertex":
            if [p[-1] for p in props[:3]] != ["x", "y", "z"]:
                raise FormatError("vertex properties must start with x y z")
            for r in rows:
                c = r.split()
                if len(c) != len(props):
                    raise FormatError("vertex row: %r" % r)
                V.append(tuple(_f(x) for x in c[:3]))
        elif name == "face":
            if len(props) != 1 or props[0][0] != "list":
                raise FormatError("face element must have one list property")
            for r in rows:
                c = [_i(x) for x in r.split()]
                if len(c) != c[0] + 1 or c[0] < 3:
                    raise FormatError("face row: %r" % r)
                F.append(c[1:])
    if pos != len(body):
        raise FormatError("trailing data after the declared elements")
    for f in F:
        if any(i < 0 or i >= len(V) for i in f):
            raise FormatError("face index out of range")
    return V, F


def parse_vtk(text):
    lines = text.split("\n")
    if not re.fullmatch(r"# vtk DataFile Version \d+\.\d+", lines[0].strip()):
        raise FormatError("version line: %r" % lines[0])
    if len(lines[1]) > 256:
        raise FormatError("title too long")
    if lines[2].strip() != "ASCII":
        raise FormatError("third line must be ASCII")
    if lines[3].strip() != "DATASET POLYDATA":
        raise FormatError("dataset line: %r" % lines[3])
    toks = " ".join(lines[4:]).split()
    p = 0
    if toks[p] != "POINTS":
        raise FormatError("POINTS expected")
    n = _i(toks[p + 1])
    if toks[p + 2] not in ("float", "double"):
        raise FormatError("point data type: %r" % toks[p + 2])
    p += 3
    V = [tuple(_f(x) for x in toks[p + 3 * k : p + 3 * k + 3]) for k in range(n)]
    if any(len(v) != 3 for v in V):
        raise FormatError("too few coordinates")
    p += 3 * n
    if p >= len(toks) or toks[p] != "POLYGONS":
        raise FormatError("POLYGONS expected")
    nf, size = _i(toks[p + 1]), _i(toks[p + 2])
    p += 3
    F = []
    used = 0
    for _ in range(nf):
        k = _i(toks[p])
        f = [_i(x) for x in toks[p + 1 : p + 1 + k]]
        if len(f) != k or k < 3:
            raise FormatError("polygon record")
        F.append(f)
        p += k + 1
        used += k + 1
    if used != size:
        raise FormatError("POLYGONS size %d does not match the %d integers that follow" % (size, used))
    if p != len(toks):
        raise FormatError("trailing data")
    for f in F:
        if any(i < 0 or i >= n for i in f):
            raise FormatError("polygon index out of range")
    return V, F


def parse_stl(text):
    toks = text.split()
    p = 0
    if toks[p] != "solid":
        raise FormatError("solid expected")
    p += 1
    name = []
    while toks[p] != "facet" and toks[p] != "endsolid":
        name.append(toks[p])
        p += 1
    tris = []
    while toks[p] == "facet":
        if toks[p + 1] != "normal":
            raise FormatError("facet normal expected")
        nrm = tuple(_f(x) for x in toks[p + 2 : p + 5])
        p += 5
        if toks[p : p + 2] != ["outer", "loop"]:
            raise FormatError("outer loop expected")
        p += 2
        vs = []
        for _ in range(3):
            if toks[p] != "vertex":
                raise FormatError("vertex expected")
            vs.append(tuple(_f(x) for x in toks[p + 1 : p + 4]))
            p += 4
        if toks[p] != "endloop" or toks[p + 1] != "endfacet":
            raise FormatError("endloop/endfacet expected")
        p += 2
        tris.append((nrm, vs))
    if toks[p] != "endsolid":
        raise FormatError("endsolid expected")
    if toks[p + 1 :] != name:
        raise FormatError("endsolid name differs from solid name")
    return tris


def _x3d_from_root(root):
    def local(tag):
        return tag.split("}")[-1]

    ifs = [e for e in root.iter() if local(e.tag) == "IndexedFaceSet"]
    if len(ifs) != 1:
        raise FormatError("expected exactly one IndexedFaceSet")
    ifs = ifs[0]
    coord = [e for e in ifs if local(e.tag) == "Coordinate"]
    if len(coord) != 1:
        raise FormatError("IndexedFaceSet needs one Coordinate child")
    pts = [_f(x) for x in coord[0].attrib.get("point", "").replace(",", " ").split()]
    if len(pts) % 3:
        raise FormatError("Coordinate point list is not a multiple of 3")
    P = [tuple(pts[i : i + 3]) for i in range(0, len(pts), 3)]
    idx = [_i(x) for x in ifs.attrib.get("coordIndex", "").replace(",", " ").split()]
    F = []
    cur = []
    for i in idx:
        if i == -1:
            if len(cur) < 3:
                raise FormatError("face with fewer than 3 indices")
            F.append(cur)
            cur = []
        else:
            if i < 0 or i >= len(P):
                raise FormatError("coordIndex out of range")
            cur.append(i)
    if cur:
        if len(cur) < 3:
            raise FormatError("last face has fewer than 3 indices")
        F.append(cur)
    return P, F


def parse_x3d(text):
    try:
        root = ElementTree.fromstring(text)
    except ElementTree.ParseError as ex:
        raise FormatError("not well-formed XML: %s" % ex)
    if root.tag.split("}")[-1].lower() != "x3d":
        raise FormatError("root element must be X3D")
    if not [e for e in root if e.tag.split("}")[-1] == "Scene"]:
        raise FormatError("X3D needs a Scene child")
    return _x3d_from_root(root)


def parse_html(text):
    if not text.lstrip().lower().startswith("<!doctype html>"):
        raise FormatError("missing <!DOCTYPE html>")
    body = text[text.lower().index("<!doctype html>") + len("<!doctype html>") :]
    try:
        root = ElementTree.fromstring(body)
    except ElementTree.ParseError as ex:
        raise FormatError("not well-formed XHTML: %s" % ex)
    if root.tag.split("}")[-1] != "html":
        raise FormatError("root element must be html")
    x3d = [e for e in root.iter() if e.tag.split("}")[-1].lower() == "x3d"]
    if len(x3d) != 1:
        raise FormatError("expected one embedded x3d element")
    return _x3d_from_root(x3d[0])
