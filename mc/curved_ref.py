"""Independent reference for curved shapes: AGM for the ellipse perimeter, Carlson's
symmetric integrals (duplication algorithm) for the ellipsoid surface, all in `decimal`
at 50 digits.  Nothing here calls scipy."""
import decimal
import math
from decimal import Decimal as Dm

decimal.getcontext().prec = 50
PI = Dm("3.14159265358979323846264338327950288419716939937510582097494")


def dm(x):
    return Dm(float(x)) if not isinstance(x, Dm) else x


def ellipse_perimeter(a, b):
    """Exact-to-50-digits perimeter via the AGM (Gauss/Legendre)."""
    a, b = dm(a), dm(b)
    if a < b:
        a, b = b, a
    if a == b:
        return 2 * PI * a
    # P = 4 a E(m), m = 1 - b^2/a^2;  E = K (1 - sum 2^(n-1) c_n^2), K = pi / (2 agm)
    x, y = Dm(1), b / a
    c = (1 - y * y).sqrt()
    s = c * c / 2
    p = Dm(1)
    for _ in range(60):
        xn = (x + y) / 2
        yn = (x * y).sqrt()
        c = (x - y) / 2
        x, y = xn, yn
        s += p * c * c
        p *= 2
        if abs(c) < Dm(10) ** -48:
            break
    K = PI / (2 * x)
    E = K * (1 - s)
    return 4 * a * E


def carlson_rf(x, y, z):
    x, y, z = dm(x), dm(y), dm(z)
    for _ in range(200):
        lam = (x * y).sqrt() + (y * z).sqrt() + (z * x).sqrt()
        x, y, z = (x + lam) / 4, (y + lam) / 4, (z + lam) / 4
        mu = (x + y + z) / 3
        if max(abs(1 - x / mu), abs(1 - y / mu), abs(1 - z / mu)) < Dm(10) ** -12:
            break
    mu = (x + y + z) / 3
    X, Y, Z = 1 - x / mu, 1 - y / mu, 1 - z / mu
    e2 = X * Y - Z * Z
    e3 = X * Y * Z
    return (1 - e2 / 10 + e3 / 14 + e2 * e2 / 24 - 3 * e2 * e3 / 44) / mu.sqrt()


def carlson_rd(x, y, z):
    x, y, z = dm(x), dm(y), dm(z)
    s = Dm(0)
    f = Dm(1)
    for _ in range(200):
        lam = (x * y).sqrt() + (y * z).sqrt() + (z * x).sqrt()
        s += f / (z.sqrt() * (z + lam))
        f /= 4
        x, y, z = (x + lam) / 4, (y + lam) / 4, (z + lam) / 4
        mu = (x + y + 3 * z) / 5
        if max(abs(1 - x / mu), abs(1 - y / mu), abs(1 - z / mu)) < Dm(10) ** -10:
            break
    mu = (x + y + 3 * z) / 5
    X, Y, Z = 1 - x / mu, 1 - y / mu, 1 - z / mu
    ea = X * Y
    eb = Z * Z
    ec = ea - eb
    ed = ea - 6 * eb
    ee = ed + ec + ec
    r = 1 + ed * (-Dm(3) / 14 + Dm(9) / 88 * ed - Dm(9) / 52 * Z * ee) + Z * (ee / 6 + Z * (-Dm(9) / 22 * ec + Dm(3) / 26 * Z * ea))
    return 3 * s + f * r / (mu * mu.sqrt())


def carlson_rg(x, y, z):
    x, y, z = sorted((dm(x), dm(y), dm(z)))
    # choose z as the largest to keep the formula well conditioned
    return (z * carlson_rf(x, y, z) - (x - z) * (y - z) / 3 * carlson_rd(x, y, z) + (x * y / z).sqrt()) / 2


def ellipsoid_area(a, b, c):
    a, b, c = dm(a), dm(b), dm(c)
    return 4 * PI * carlson_rg(a * a * b * b, a * a * c * c, b * b * c * c)


def spheroid_area_closed_form(a, c):
    """Surface of the spheroid with semi-axes (a, a, c) from the textbook formulas."""
    if a == c:
        return 4 * math.pi * a * a
    if c < a:  # oblate
        e = math.sqrt(1 - c * c / (a * a))
        return 2 * math.pi * a * a * (1 + (1 - e * e) / e * math.atanh(e))
    e = math.sqrt(1 - a * a / (c * c))
    return 2 * math.pi * a * a * (1 + c / (a * e) * math.asin(e))


def self_validate():
    """Model validation traces: closed forms and brute-force quadrature."""
    errs = []
    # spheres and spheroids against the closed forms
    for a, c in ((1.0, 1.0), (2.0, 1.0), (1.0, 3.0), (0.3, 7.5), (7.5, 0.3)):
        ref = spheroid_area_closed_form(a, c)
        got = float(ellipsoid_area(a, a, c))
        errs.append(("spheroid", a, c, abs(got - ref) / ref))
    # ellipse perimeter against a midpoint sum of the arc-length integrand
    for a, b in ((1.0, 1.0), (2.0, 1.0), (1.0, 7.5), (0.3, 1.0)):
        n = 200000
        s = 0.0
        for k in range(n):
            t = 2 * math.pi * (k + 0.5) / n
            s += math.hypot(a * math.sin(t), b * math.cos(t))
        ref = s * 2 * math.pi / n
        got = float(ellipse_perimeter(a, b))
        errs.append(("perimeter", a, b, abs(got - ref) / ref))
    # tri-axial ellipsoid against a brute-force surface quadrature
    for a, b, c in ((1.0, 2.0, 3.0), (1.0, 0.3, 2.0)):
        n = 600
        s = 0.0
        for i in range(n):
            th = math.pi * (i + 0.5) / n
            st, ct = math.sin(th), math.cos(th)
            for j in range(n):
                ph = 2 * math.pi * (j + 0.5) / n
                sp, cp = math.sin(ph), math.cos(ph)
                s += st * math.sqrt((b * c * st * cp) ** 2 + (a * c * st * sp) ** 2 + (a * b * ct) ** 2)
        ref = s * (math.pi / n) * (2 * math.pi / n)
        got = float(ellipsoid_area(a, b, c))
        errs.append(("ellipsoid", (a, b, c), None, abs(got - ref) / ref))
    return errs
