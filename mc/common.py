"""Shared machinery: binding to /repo, determinism, case runner, violations,
known findings, evidence.

Every check module exposes

    PROPERTY          'C01'
    ENGINE            'E1' | 'E2' | 'E3'
    RULE              text for the evidence file
    ASSUMPTIONS       list of strings
    cases(tier)       -> iterable of JSON-serialisable case descriptors
    run_case(case)    -> Report   (deterministic; executes the implementation)

The runner shards the cases over worker processes, merges the reports, attributes
violations to known findings and writes evidence.  `replay` re-executes exactly
one stored case through the same `run_case`.
"""
import hashlib
import importlib
import json
import os
import random
import sys
import time
import traceback
import collections

REPO = os.environ.get("COXETER_REPO", "/repo")
VERIF = os.path.dirname(os.path.dirname(os.path.abspath(__file__)))
# tooling only (tools/mutate.py): where evidence/ and replays/ go; the registered commands never set it
OUT = os.environ.get("VERIF_OUT", VERIF)


def bind_repo():
    """Force `coxeter` to be imported from /repo's working tree."""
    if sys.path[0] != REPO:
        sys.path.insert(0, REPO)
    import coxeter  # noqa

    f = os.path.realpath(coxeter.__file__)
    if not f.startswith(os.path.realpath(REPO) + os.sep):
        raise SystemExit(f"coxeter imported from {f}, not from {REPO}")
    return coxeter


def seed_all(k=12345):
    import numpy as np

    random.seed(k)
    np.random.seed(k)


def jsonable(x):
    import numpy as np
    from fractions import Fraction

    if isinstance(x, dict):
        return {str(k): jsonable(v) for k, v in x.items()}
    if isinstance(x, (list, tuple, set, frozenset)):
        return [jsonable(v) for v in x]
    if isinstance(x, np.ndarray):
        return jsonable(x.tolist())
    if isinstance(x, (np.floating,)):
        return float(x)
    if isinstance(x, (np.integer,)):
        return int(x)
    if isinstance(x, (np.bool_,)):
        return bool(x)
    if isinstance(x, complex):
        return {"re": x.real, "im": x.imag}
    if isinstance(x, Fraction):
        return float(x)
    if isinstance(x, float):
        if x != x or x in (float("inf"), float("-inf")):
            return repr(x)
        return x
    if isinstance(x, (int, str, bool)) or x is None:
        return x
    return repr(x)


class Report:
    """What one case (or a merged set of cases) covered."""

    __slots__ = (
        "states",
        "transitions",
        "traces",
        "evaluations",
        "nontrivial",
        "outcomes",
        "violations",
        "samples",
        "extra",
        "skipped",
        "maxima",
    )

    def __init__(self):
        self.states = 0
        self.transitions = 0
        self.traces = 0
        self.evaluations = 0
        self.nontrivial = 0
        self.outcomes = collections.Counter()
        self.violations = []
        self.samples = []
        self.extra = collections.Counter()
        self.skipped = collections.Counter()
        self.maxima = {}

    # -- recording ---------------------------------------------------------
    def ok(self, label, n=1):
        self.evaluations += n
        self.outcomes[label] += n

    def skip(self, why, n=1):
        self.skipped[why] += n

    def violation(self, check, cls, observable, mode, case, message, expected=None, got=None, tol=None, **extra):
        """Record one violation.  (check, cls, observable, mode) is the signature."""
        self.evaluations += 1
        self.outcomes["VIOLATION:" + mode] += 1
        v = {
            "sig": {"check": check, "cls": cls, "observable": observable, "mode": mode},
            "case": case,
            "message": message,
            "expected": jsonable(expected),
            "got": jsonable(got),
            "tol": jsonable(tol),
        }
        v.update(jsonable(extra))
        self.violations.append(v)

    def peak(self, key, value):
        """Track the largest observed value of a noise metric (reported in evidence)."""
        try:
            value = float(value)
        except Exception:
            return
        if value == value and value > self.maxima.get(key, -1.0):
            self.maxima[key] = value

    def sample(self, s, limit=4):
        if len(self.samples) < limit:
            self.samples.append(jsonable(s))

    def merge(self, o):
        self.states += o.states
        self.transitions += o.transitions
        self.traces += o.traces
        self.evaluations += o.evaluations
        self.nontrivial += o.nontrivial
        self.outcomes.update(o.outcomes)
        self.extra.update(o.extra)
        self.skipped.update(o.skipped)
        for k, v in o.maxima.items():
            if v > self.maxima.get(k, -1.0):
                self.maxima[k] = v
        # keep at most 40 violations per signature to bound memory
        self.violations.extend(o.violations)
        for s in o.samples:
            if len(self.samples) < 6:
                self.samples.append(s)

    def pack(self):
        return {k: getattr(self, k) for k in self.__slots__}

    @classmethod
    def unpack(cls, d):
        r = cls()
        for k in cls.__slots__:
            setattr(r, k, d[k])
        return r


# ---------------------------------------------------------------------------
# known findings


def load_known():
    p = os.path.join(VERIF, "known_findings.json")
    if not os.path.exists(p):
        return []
    with open(p) as f:
        return json.load(f)["findings"]


def match_known(prop, v, known):
    """Return the open finding that lists this violation, or None."""
    import fnmatch

    for k in known:
        if k.get("status") != "open" or k["property"] != prop:
            continue
        m = k["match"]
        ok = True
        for key, pat in m.items():
            if key == "case":
                # every listed case field must match exactly (identifies the specific input)
                for ck, cv in pat.items():
                    if jsonable(v["case"].get(ck)) != cv:
                        ok = False
                        break
                if not ok:
                    break
                continue
            val = v["sig"].get(key)
            if val is None or not fnmatch.fnmatchcase(str(val), pat):
                ok = False
                break
        if ok:
            return k
    return None


# ---------------------------------------------------------------------------
# worker plumbing

_MOD = None


def _init_worker(modname):
    global _MOD
    bind_repo()
    seed_all()
    _MOD = importlib.import_module(modname)
    if hasattr(_MOD, "init_worker"):
        _MOD.init_worker()


def _run_chunk(chunk):
    rep = Report()
    for case in chunk:
        seed_all()
        try:
            r = _MOD.run_case(case)
        except Exception:
            r = Report()
            r.violation(
                "harness",
                "-",
                "-",
                "harness-exception",
                case,
                "the harness itself raised: " + traceback.format_exc()[-1500:],
            )
        rep.merge(r)
    # cap violations shipped back
    if len(rep.violations) > 200:
        rep.extra["violations_truncated"] += len(rep.violations) - 200
        rep.violations = rep.violations[:200]
    return rep.pack()


def write_replay(prop, modname, v):
    d = os.path.join(OUT, "replays", prop)
    os.makedirs(d, exist_ok=True)
    body = {"property": prop, "module": modname, "sig": v["sig"], "case": v["case"], "message": v["message"], "expected": v.get("expected"), "got": v.get("got"), "tol": v.get("tol")}
    h = hashlib.sha1(json.dumps([body["sig"], body["case"]], sort_keys=True, default=repr).encode()).hexdigest()[:12]
    p = os.path.join(d, h + ".json")
    with open(p, "w") as f:
        json.dump(body, f, indent=1, default=repr)
    return p


def run_check(modname, tier):
    import multiprocessing as mp

    t0 = time.time()
    bind_repo()
    seed_all()
    mod = importlib.import_module(modname)
    prop = mod.PROPERTY
    seed = int(os.environ.get("VERIF_SEED", "0") or 0)
    budget = float(os.environ.get("VERIF_BUDGET_S", "0") or 0)
    nproc = int(os.environ.get("VERIF_PROCS", "0") or 0) or min(16, os.cpu_count() or 1)

    cases = list(mod.cases(tier))
    # tooling only (tools/mutate.py): sub-sampled, stop-at-first-violation runs; such a run is never exhaustive
    stride = int(os.environ.get("VERIF_STRIDE", "1") or 1)
    failfast = bool(os.environ.get("VERIF_FAILFAST"))
    if stride > 1:
        cases = cases[::stride]
    n_cases = len(cases)
    # determinism self-test: the first case is executed twice in this process
    det_ok = True
    if cases:
        if hasattr(mod, "init_worker"):
            mod.init_worker()
        seed_all()
        a = mod.run_case(cases[0]).pack()
        seed_all()
        b = mod.run_case(cases[0]).pack()
        det_ok = json.dumps(jsonable(a), sort_keys=True) == json.dumps(jsonable(b), sort_keys=True)
    chunk = getattr(mod, "CHUNK", None) or max(1, min(50, n_cases // (nproc * 8) or 1))
    chunks = [cases[i : i + chunk] for i in range(0, n_cases, chunk)]
    order = list(range(len(chunks)))
    random.Random(seed).shuffle(order)  # the seed only permutes shard order

    total = Report()
    _kn = load_known()
    done_chunks = 0
    capped = False
    ctx = mp.get_context("fork")
    with ctx.Pool(nproc, initializer=_init_worker, initargs=(modname,)) as pool:
        it = pool.imap_unordered(_run_chunk, [chunks[i] for i in order])
        for packed in it:
            total.merge(Report.unpack(packed))
            done_chunks += 1
            if failfast and any(match_known(prop, v, _kn) is None for v in total.violations):
                capped = True
                pool.terminate()
                break
            if budget and time.time() - t0 > budget:
                capped = True
                pool.terminate()
                break

    known = load_known()
    new, listed = [], collections.OrderedDict()
    for v in total.violations:
        k = match_known(prop, v, known)
        if k is None:
            new.append(v)
        else:
            listed.setdefault(k["id"], [k, 0])
            listed[k["id"]][1] += 1
    if not det_ok:
        new.append({"sig": {"check": "harness", "cls": "-", "observable": "-", "mode": "nondeterministic"}, "case": cases[0], "message": "first case gave two different reports when executed twice"})

    # de-duplicate new violations by signature, simplest case first (cases are enumerated simplest-first)
    by_sig = collections.OrderedDict()
    for v in new:
        key = json.dumps(v["sig"], sort_keys=True)
        by_sig.setdefault(key, []).append(v)
    lines = []
    for key, vs in by_sig.items():
        vs.sort(key=lambda v: len(json.dumps(v["case"], default=repr)))
        p = write_replay(prop, modname, vs[0])
        lines.append((p, vs[0], len(vs)))

    wall = time.time() - t0
    exhaustive = (not capped) and stride == 1 and not getattr(mod, "NOT_EXHAUSTIVE", False)
    cov = {
        "states": total.states,
        "transitions": total.transitions,
        "traces_validated_against_impl": total.traces,
        "evaluations": total.evaluations,
        "distinct_nontrivial": total.nontrivial,
        "distinct_outcomes": len(total.outcomes),
        "outcomes": dict(total.outcomes.most_common(40)),
        "rule": mod.RULE,
        "samples": total.samples or [jsonable(c) for c in cases[:3]],
        "exhaustive": exhaustive,
        "cases": n_cases,
        "cases_completed": n_cases if not capped else sum(len(chunks[i]) for i in order[:done_chunks]),
        "bounds": getattr(mod, "BOUNDS", {}).get(tier, {}),
        "skipped_by_precondition": dict(total.skipped),
        "engine": getattr(mod, "ENGINE", "E2"),
        "extra": dict(total.extra),
        "max_observed_error_over_tolerance": {k: float("%.3g" % v) for k, v in sorted(total.maxima.items())},
        "known_findings_matched": {k: n for k, (_, n) in listed.items()},
        "new_violation_signatures": len(by_sig),
        "workers": nproc,
        "deterministic_replay_of_first_case": det_ok,
        "trusted_base": ["CPython int/fractions arithmetic", "numpy/scipy as used by coxeter itself"] + list(getattr(mod, "TRUSTED", [])),
    }
    ev = {
        "property_id": prop,
        "tier": tier,
        "seed": seed,
        "level": "model_checking",
        "coverage": cov,
        "assumptions": list(getattr(mod, "ASSUMPTIONS", [])) + ["small-scope hypothesis: inputs outside the enumerated alphabets are not covered", "coxeter imported from /repo working tree (asserted)"],
        "wall_s": round(wall, 2),
        "violations": len(new),
    }
    os.makedirs(os.path.join(OUT, "evidence"), exist_ok=True)
    with open(os.path.join(OUT, "evidence", prop + ".json"), "w") as f:
        json.dump(jsonable(ev), f, indent=1)
    if tier == "thorough":
        # keep the last thorough run next to the (per-change) quick evidence
        os.makedirs(os.path.join(OUT, "evidence_thorough"), exist_ok=True)
        with open(os.path.join(OUT, "evidence_thorough", prop + ".json"), "w") as f:
            json.dump(jsonable(ev), f, indent=1)

    print(f"[{prop}] tier={tier} cases={n_cases} states={total.states} transitions={total.transitions} evaluations={total.evaluations} nontrivial={total.nontrivial} outcomes={len(total.outcomes)} skipped={sum(total.skipped.values())} wall={wall:.1f}s exhaustive={exhaustive}")
    for kid, (k, n) in listed.items():
        print(f"KNOWN-FINDING: property={prop} {kid}: {k['what']} ({n} cases)")
    maxlines = int(os.environ.get("VERIF_MAX_LINES", "40"))
    for p, v, n in lines[:maxlines]:
        s = v["sig"]
        print(f"VIOLATION property={prop} replay={p}")
        print(f"   {s['check']} {s['cls']}.{s['observable']} [{s['mode']}] x{n}: {str(v['message'])[:400]}")
    if len(lines) > maxlines:
        print(f"   ... and {len(lines) - maxlines} more violation signatures (replays written under replays/{prop}/)")
    return 1 if lines else 0


def run_replay(path):
    bind_repo()
    seed_all()
    with open(path) as f:
        body = json.load(f)
    mod = importlib.import_module(body["module"])
    if hasattr(mod, "init_worker"):
        mod.init_worker()
    rep = mod.run_case(body["case"])
    hits = [v for v in rep.violations if v["sig"] == body["sig"]]
    other = [v for v in rep.violations if v["sig"] != body["sig"]]
    # violations of the same case that are listed as open known findings are not failures of the replay
    known = load_known()
    listed = [v for v in other if match_known(body["property"], v, known) is not None]
    other = [v for v in other if match_known(body["property"], v, known) is None]
    for kid in sorted({match_known(body["property"], v, known)["id"] for v in listed}):
        print(f"KNOWN-FINDING: property={body['property']} {kid} (also present in this case)")
    if hits:
        print(f"REPLAY still fails: property={body['property']} {body['sig']}")
        print("  ", hits[0]["message"])
        return 1
    if other:
        print(f"REPLAY: recorded signature no longer fails, but {len(other)} other violation(s) in the same case:")
        for v in other[:5]:
            print("  ", v["sig"], v["message"][:200])
        return 1
    print("REPLAY passes: the recorded case no longer violates the property")
    return 0
