"""Exact reference geometry (rational / integer arithmetic, no numpy in the deciding
arithmetic).  Floats are rationals, so a reference computed from the very floats the
implementation received is exact for that input.

Points are tuples of Python ints or Fractions.  `ints_from_floats` maps a float array
to integer coordinates on a common power-of-two grid (x = n / 2**e), so that all the
homogeneous polynomial quantities below are computed in pure integer arithmetic.
"""
import itertools
import math
from fractions import Fraction as Fr


# ---------------------------------------------------------------------------
# conversions


def fr_points(arr):
    return [tuple(Fr(float(x)) for x in p) for p in arr]


def ints_from_floats(arr):
    """-> (list of int tuples, e) with value = n / 2**e exactly."""
    rows = [[float(x) for x in p] for p in arr]
    e = 0
    for p in rows:
        for x in p:
            if x != 0.0:
                d = x.as_integer_ratio()[1]
                e = max(e, d.bit_length() - 1)
    out = []
    for p in rows:
        q = []
        for x in p:
            n, d = x.as_integer_ratio()
            q.append(n * ((1 << e) // d))
        out.append(tuple(q))
    return out, e


def fl(x):
    """Correctly rounded float of an int/Fraction (works for huge ints)."""
    if isinstance(x, int):
        try:
            return float(x)
        except OverflowError:
            return float(Fr(x))
    return float(x)


def ratio(n, d):
    """float(n/d) for (possibly huge) ints/Fractions without overflow."""
    return float(Fr(n) / Fr(d))


# ---------------------------------------------------------------------------
# vector algebra on tuples


def sub(a, b):
    return tuple(x - y for x, y in zip(a, b))


def add(a, b):
    return tuple(x + y for x, y in zip(a, b))


def scale(a, s):
    return tuple(x * s for x in a)


def cross(a, b):
    return (a[1] * b[2] - a[2] * b[1], a[2] * b[0] - a[0] * b[2], a[0] * b[1] - a[1] * b[0])


def dot(a, b):
    return sum(x * y for x, y in zip(a, b))


def det3(a, b, c):
    return dot(a, cross(b, c))


def sign(x):
    return (x > 0) - (x < 0)


# ---------------------------------------------------------------------------
# exact convex hull in 3-D (brute force over triples; fine for <= ~14 points)


class Degenerate(Exception):
    pass


def planar_extreme(P, idx, nr):
    """Strictly extreme points among the coplanar points `idx`, in counter-clockwise
    order about the normal `nr` (exact gift wrapping).  Points in the relative
    interior of an edge are NOT extreme."""
    start = min(idx, key=lambda t: P[t])
    hull = [start]
    cur = start
    while True:
        nxt = None
        for t in idx:
            if t == cur:
                continue
            if nxt is None:
                nxt = t
                continue
            o = dot(cross(sub(P[nxt], P[cur]), sub(P[t], P[cur])), nr)
            if o < 0:
                nxt = t
            elif o == 0:
                dt = sub(P[t], P[cur])
                dn = sub(P[nxt], P[cur])
                # collinear: keep the farther one only if in the same direction
                if dot(dt, dn) > 0 and dot(dt, dt) > dot(dn, dn):
                    nxt = t
                elif dot(dt, dn) < 0:
                    # opposite directions from cur: cur is interior to an edge; pick by
                    # orientation consistency: prefer the one that keeps all others left
                    pass
        if nxt == start:
            break
        hull.append(nxt)
        cur = nxt
        if len(hull) > len(idx):
            raise Degenerate("gift wrap did not close")
    if len(hull) < 3:
        raise Degenerate("face with fewer than 3 extreme points")
    return hull


def hull_facets(P):
    """Exact facets of conv(P): list of (normal, offset, all_on_plane, extreme_ccw).
    normal.x <= offset for all points, equality on the facet.  Raises Degenerate for
    coplanar input."""
    n = len(P)
    planes = {}
    for i, j, k in itertools.combinations(range(n), 3):
        nr = cross(sub(P[j], P[i]), sub(P[k], P[i]))
        if nr == (0, 0, 0):
            continue
        d = dot(nr, P[i])
        s = [dot(nr, p) - d for p in P]
        pos = any(x > 0 for x in s)
        neg = any(x < 0 for x in s)
        if pos and neg:
            continue
        if not pos and not neg:
            raise Degenerate("all points coplanar")
        if pos:
            nr = tuple(-x for x in nr)
            d = -d
            s = [-x for x in s]
        on = tuple(t for t in range(n) if s[t] == 0)
        if on not in planes:
            planes[on] = (nr, d)
    if not planes:
        raise Degenerate("no facets")
    out = []
    for on, (nr, d) in planes.items():
        ext = planar_extreme(P, list(on), nr)
        out.append((nr, d, on, ext))
    return out


def hull_vertices(P):
    """Set of indices that are vertices (extreme points) of conv(P)."""
    v = set()
    for _, _, _, ext in hull_facets(P):
        v.update(ext)
    return v


def in_convex_position(P):
    try:
        return len(hull_vertices(P)) == len(P) and len(set(P)) == len(P)
    except Degenerate:
        return False


# ---------------------------------------------------------------------------
# exact integrals over a closed, outward oriented mesh with (near-)planar faces


def tri_fan(face):
    return [(face[0], face[i], face[i + 1]) for i in range(1, len(face) - 1)]


def mesh_raw_moments(P, faces, origin=None):
    """Raw sums over signed tetrahedra (origin, a, b, c):
    V6   = sum det                      (= 6 V)
    C24  = sum det * (a+b+c)            (= 24 * first moment)
    M120 = sum det * (s s^T + aa^T + bb^T + cc^T)   (= 120 * second moment matrix)
    """
    V6 = 0
    C24 = [0, 0, 0]
    M = [[0, 0, 0], [0, 0, 0], [0, 0, 0]]
    for f in faces:
        for ia, ib, ic in tri_fan(f):
            a, b, c = P[ia], P[ib], P[ic]
            if origin is not None:
                a, b, c = sub(a, origin), sub(b, origin), sub(c, origin)
            d = det3(a, b, c)
            if d == 0:
                continue
            V6 += d
            s = (a[0] + b[0] + c[0], a[1] + b[1] + c[1], a[2] + b[2] + c[2])
            for m in range(3):
                C24[m] += d * s[m]
            for i in range(3):
                for j in range(i, 3):
                    M[i][j] += d * (s[i] * s[j] + a[i] * a[j] + b[i] * b[j] + c[i] * c[j])
    for i in range(3):
        for j in range(i):
            M[i][j] = M[j][i]
    return V6, C24, M


def solid_measures(P, faces, e=0):
    """Exact volume, centroid, inertia tensor about the origin (unit density), as
    floats, for integer points on the 2**-e grid (or Fractions with e=0)."""
    V6, C24, M = mesh_raw_moments(P, faces)
    s1, s3, s4, s5 = (1 << e), (1 << (3 * e)), (1 << (4 * e)), (1 << (5 * e))
    if V6 == 0:
        raise Degenerate("zero volume")
    V = ratio(V6, 6 * s3)
    cen = [ratio(Fr(C24[m], 4 * V6), s1) for m in range(3)]  # (C24/24)/(V6/6) = C24/(4 V6)
    M2 = [[Fr(M[i][j], 120 * s5) for j in range(3)] for i in range(3)]
    tr = M2[0][0] + M2[1][1] + M2[2][2]
    I = [[float((tr if i == j else 0) - M2[i][j]) for j in range(3)] for i in range(3)]
    return V, cen, I


def vector_area2(P, face):
    """Twice the vector area of a (near-)planar polygon."""
    n = [0, 0, 0]
    p0 = P[face[0]]
    for _, ib, ic in tri_fan(face):
        c = cross(sub(P[ib], p0), sub(P[ic], p0))
        n = [n[0] + c[0], n[1] + c[1], n[2] + c[2]]
    return tuple(n)


def sqrt_ratio(n, d=1):
    """sqrt(n/d) as float, robust for huge ints."""
    f = Fr(n) / Fr(d)
    if f == 0:
        return 0.0
    # scale into float range
    num, den = f.numerator, f.denominator
    sh = (num.bit_length() - den.bit_length()) // 2 * 2
    if sh > 0:
        v = Fr(num, den << sh)
    else:
        v = Fr(num << (-sh), den)
    return math.sqrt(float(v)) * 2.0 ** (sh // 2)


def face_area(P, face, e=0):
    """Area of a planar convex (or simple planar) polygon: |vector area| / 2.
    For faces that are planar only up to rounding this is the area to O(eps^2)."""
    n2 = vector_area2(P, face)
    return 0.5 * sqrt_ratio(dot(n2, n2), 1 << (4 * e))


def tri_area_sum(P, face, e=0):
    """Sum of triangle areas of the fan (equals face_area for planar convex faces)."""
    p0 = P[face[0]]
    s = 0.0
    for _, ib, ic in tri_fan(face):
        c = cross(sub(P[ib], p0), sub(P[ic], p0))
        s += 0.5 * sqrt_ratio(dot(c, c), 1 << (4 * e))
    return s


def face_centroid(P, face, e=0):
    """Centroid of a planar polygon (weights = fan triangle areas projected on the
    total normal; exact rational)."""
    N = vector_area2(P, face)
    p0 = P[face[0]]
    W = 0
    acc = [0, 0, 0]
    for _, ib, ic in tri_fan(face):
        c = cross(sub(P[ib], p0), sub(P[ic], p0))
        w = dot(c, N)
        W += w
        s = add(add(p0, P[ib]), P[ic])
        acc = [acc[m] + w * s[m] for m in range(3)]
    return [ratio(Fr(acc[m], 3 * W), 1 << e) for m in range(3)]


def edge_length(P, i, j, e=0):
    d = sub(P[i], P[j])
    return sqrt_ratio(dot(d, d), 1 << (2 * e))


# ---------------------------------------------------------------------------
# closed-mesh validation (precondition of C02) and topology helpers


def mesh_is_closed_oriented(faces):
    """Every directed edge occurs once and its reverse occurs once."""
    cnt = {}
    for f in faces:
        k = len(f)
        for i in range(k):
            ed = (f[i], f[(i + 1) % k])
            if ed in cnt:
                return False
            cnt[ed] = 1
    return all((b, a) in cnt for (a, b) in cnt)


def mesh_edges(faces):
    s = set()
    for f in faces:
        k = len(f)
        for i in range(k):
            a, b = f[i], f[(i + 1) % k]
            s.add((min(a, b), max(a, b)))
    return sorted(s)


# ---------------------------------------------------------------------------
# membership / distance for convex polyhedra given exact facets


def convex_signed_excess(facets, x):
    """max over facets of (n.x - d)/|n| as float (positive = outside by that much,
    negative = inside with that clearance)."""
    best = None
    for nr, d, _, _ in facets:
        v = dot(nr, x) - d
        val = fl(v) / math.sqrt(fl(dot(nr, nr)))
        if best is None or val > best:
            best = val
    return best


def dist2_point_segment(x, a, b):
    ab = sub(b, a)
    ax = sub(x, a)
    t = Fr(dot(ax, ab), dot(ab, ab))
    if t < 0:
        t = Fr(0)
    elif t > 1:
        t = Fr(1)
    p = tuple(a[m] + t * ab[m] for m in range(3))
    d = sub(x, p)
    return dot(d, d)


def dist2_point_convex_polygon(x, pts, nr):
    """Exact squared distance from x to a planar convex polygon with vertices pts
    (ccw about nr)."""
    # projection onto plane
    nn = dot(nr, nr)
    h = Fr(dot(nr, sub(x, pts[0])), nn)
    proj = tuple(x[m] - h * nr[m] for m in range(3))
    inside = True
    k = len(pts)
    for i in range(k):
        a, b = pts[i], pts[(i + 1) % k]
        if dot(cross(sub(b, a), sub(proj, a)), nr) < 0:
            inside = False
            break
    if inside:
        return h * h * nn
    return min(dist2_point_segment(x, pts[i], pts[(i + 1) % k]) for i in range(k))


def dist2_point_convex_polyhedron(P, facets, x):
    """Exact squared distance (Fraction) from x to the solid conv(P); 0 if inside."""
    if all(dot(nr, x) - d <= 0 for nr, d, _, _ in facets):
        return Fr(0)
    best = None
    for nr, d, _, ext in facets:
        if dot(nr, x) - d <= 0:
            continue
        v = dist2_point_convex_polygon(x, [P[t] for t in ext], nr)
        if best is None or v < best:
            best = v
    return best


# ---------------------------------------------------------------------------
# planar polygons (2-D exact)


def shoelace2(poly):
    """Twice the signed area of a 2-D polygon."""
    s = 0
    n = len(poly)
    for i in range(n):
        x0, y0 = poly[i]
        x1, y1 = poly[(i + 1) % n]
        s += x0 * y1 - x1 * y0
    return s


def polygon_moments(poly):
    """Exact A, Sx=int x, Sy=int y, Ixx=int x^2, Iyy=int y^2, Ixy=int xy for a simple
    polygon given counter-clockwise (signed with orientation otherwise)."""
    A2 = 0
    Sx = Sy = Ixx = Iyy = Ixy = 0
    n = len(poly)
    for i in range(n):
        x0, y0 = poly[i]
        x1, y1 = poly[(i + 1) % n]
        c = x0 * y1 - x1 * y0
        A2 += c
        Sx += (x0 + x1) * c
        Sy += (y0 + y1) * c
        Ixx += (x0 * x0 + x0 * x1 + x1 * x1) * c
        Iyy += (y0 * y0 + y0 * y1 + y1 * y1) * c
        Ixy += (x0 * y1 + 2 * x0 * y0 + 2 * x1 * y1 + x1 * y0) * c
    return Fr(A2, 2), Fr(Sx, 6), Fr(Sy, 6), Fr(Ixx, 12), Fr(Iyy, 12), Fr(Ixy, 24)


def seg_intersection_kind(p, q, r, s):
    """Relation of closed segments pq and rs (2-D exact): 'none', 'cross' (proper
    transversal crossing in both interiors) or 'touch' (any other contact)."""

    def orient(a, b, c):
        return sign((b[0] - a[0]) * (c[1] - a[1]) - (b[1] - a[1]) * (c[0] - a[0]))

    def onseg(a, b, c):
        return min(a[0], b[0]) <= c[0] <= max(a[0], b[0]) and min(a[1], b[1]) <= c[1] <= max(a[1], b[1])

    o1, o2, o3, o4 = orient(p, q, r), orient(p, q, s), orient(r, s, p), orient(r, s, q)
    if o1 * o2 < 0 and o3 * o4 < 0:
        return "cross"
    if (o1 == 0 and onseg(p, q, r)) or (o2 == 0 and onseg(p, q, s)) or (o3 == 0 and onseg(r, s, p)) or (o4 == 0 and onseg(r, s, q)):
        return "touch"
    return "none"


def classify_cycle(poly):
    """'simple' | 'crossing' | 'degenerate' for a closed 2-D vertex cycle."""
    n = len(poly)
    if len(set(poly)) != n or n < 3:
        return "degenerate"
    kind = "simple"
    for i in range(n):
        a, b, c = poly[i - 1], poly[i], poly[(i + 1) % n]
        if (b[0] - a[0]) * (c[1] - a[1]) - (b[1] - a[1]) * (c[0] - a[0]) == 0:
            return "degenerate"  # collinear neighbours (incl. spikes)
    for i in range(n):
        for j in range(i + 1, n):
            adjacent = (j == i + 1) or (i == 0 and j == n - 1)
            if adjacent:
                continue
            k = seg_intersection_kind(poly[i], poly[(i + 1) % n], poly[j], poly[(j + 1) % n])
            if k == "touch":
                return "degenerate"
            if k == "cross":
                kind = "crossing"
    return kind


def point_in_polygon_exact(poly, x):
    """'in' | 'out' | 'on' by exact crossing number."""
    n = len(poly)
    inside = False
    for i in range(n):
        a, b = poly[i], poly[(i + 1) % n]
        # on segment?
        cr = (b[0] - a[0]) * (x[1] - a[1]) - (b[1] - a[1]) * (x[0] - a[0])
        if cr == 0 and min(a[0], b[0]) <= x[0] <= max(a[0], b[0]) and min(a[1], b[1]) <= x[1] <= max(a[1], b[1]):
            return "on"
        if (a[1] > x[1]) != (b[1] > x[1]):
            # x-coordinate of the intersection compared with x[0], exact
            t = (b[0] - a[0]) * (x[1] - a[1]) - (x[0] - a[0]) * (b[1] - a[1])
            if (b[1] - a[1]) < 0:
                t = -t
            if t > 0:
                inside = not inside
    return "in" if inside else "out"


def dist2_point_polygon_boundary(poly, x):
    best = None
    n = len(poly)
    for i in range(n):
        a, b = poly[i], poly[(i + 1) % n]
        ab = (b[0] - a[0], b[1] - a[1])
        ax = (x[0] - a[0], x[1] - a[1])
        t = Fr(ab[0] * ax[0] + ab[1] * ax[1], ab[0] * ab[0] + ab[1] * ab[1])
        t = min(max(t, Fr(0)), Fr(1))
        px, py = a[0] + t * ab[0], a[1] + t * ab[1]
        d = (x[0] - px) ** 2 + (x[1] - py) ** 2
        if best is None or d < best:
            best = d
    return best


def is_convex_ccw(poly):
    n = len(poly)
    for i in range(n):
        a, b, c = poly[i - 1], poly[i], poly[(i + 1) % n]
        if (b[0] - a[0]) * (c[1] - a[1]) - (b[1] - a[1]) * (c[0] - a[0]) <= 0:
            return False
    return True


# ---------------------------------------------------------------------------
# smallest enclosing ball (exact brute force)


def _circumball(pts):
    """Smallest ball with all of pts (2..4 affinely independent points) on its
    boundary: centre in their affine hull.  Returns (centre, r2) as Fractions or None."""
    p0 = pts[0]
    k = len(pts) - 1
    if k == 0:
        return tuple(Fr(x) for x in p0), Fr(0)
    vs = [sub(p, p0) for p in pts[1:]]
    # solve G lam = b, G_ij = vi.vj, b_i = vi.vi/2
    G = [[Fr(dot(vs[i], vs[j])) for j in range(k)] for i in range(k)]
    b = [Fr(dot(vs[i], vs[i]), 2) for i in range(k)]
    # gaussian elimination
    A = [G[i] + [b[i]] for i in range(k)]
    for c in range(k):
        piv = None
        for r in range(c, k):
            if A[r][c] != 0:
                piv = r
                break
        if piv is None:
            return None
        A[c], A[piv] = A[piv], A[c]
        pv = A[c][c]
        A[c] = [x / pv for x in A[c]]
        for r in range(k):
            if r != c and A[r][c] != 0:
                f = A[r][c]
                A[r] = [x - f * y for x, y in zip(A[r], A[c])]
    lam = [A[i][k] for i in range(k)]
    cvec = [sum(lam[i] * vs[i][m] for i in range(k)) for m in range(len(p0))]
    centre = tuple(Fr(p0[m]) + cvec[m] for m in range(len(p0)))
    r2 = sum(x * x for x in cvec)
    return centre, r2


def min_enclosing_ball(P):
    """Exact smallest enclosing ball of points P (tuples, any dimension <= 3):
    brute force over support sets of size 1..4."""
    P = list(dict.fromkeys(P))
    best = None
    for k in (1, 2, 3, 4):
        for sup in itertools.combinations(P, k):
            cb = _circumball(sup)
            if cb is None:
                continue
            c, r2 = cb
            if best is not None and r2 >= best[1]:
                continue
            if all(sum((Fr(p[m]) - c[m]) ** 2 for m in range(len(p))) <= r2 for p in P):
                best = (c, r2)
        if best is not None and k >= 2:
            # a feasible ball with k support points: a smaller one may still exist with more
            pass
    return best


# ---------------------------------------------------------------------------
# exact ear clipping (for caps of extruded polygons)


def _orient2(a, b, c):
    return (b[0] - a[0]) * (c[1] - a[1]) - (b[1] - a[1]) * (c[0] - a[0])


def triangulate_exact(poly):
    """Ear clipping of a simple counter-clockwise 2-D polygon with exact predicates.
    Returns index triples (ccw), or None if a degenerate (collinear) configuration
    arises on the way (such polygons are skipped by the callers)."""
    idx = list(range(len(poly)))
    tris = []
    guard = 0
    while len(idx) > 3:
        guard += 1
        if guard > 10 * len(poly) + 10:
            return None
        n = len(idx)
        found = False
        for k in range(n):
            ia, ib, ic = idx[k - 1], idx[k], idx[(k + 1) % n]
            a, b, c = poly[ia], poly[ib], poly[ic]
            o = _orient2(a, b, c)
            if o < 0:
                continue
            if o == 0:
                return None
            ok = True
            for j in idx:
                if j in (ia, ib, ic):
                    continue
                p = poly[j]
                if _orient2(a, b, p) >= 0 and _orient2(b, c, p) >= 0 and _orient2(c, a, p) >= 0:
                    ok = False
                    break
            if ok:
                tris.append((ia, ib, ic))
                del idx[k]
                found = True
                break
        if not found:
            return None
    a, b, c = (poly[i] for i in idx)
    if _orient2(a, b, c) <= 0:
        return None
    tris.append(tuple(idx))
    return tris
