"""E1 - explicit-state exploration of operation histories on live shape objects.

A state is the history that reaches it; objects are carried as deepcopy snapshots and a
sample of states is cross-checked by replaying the history on a fresh base.  States
are de-duplicated by a canonical form of the whole instance dictionary (every stored
field, rounded to 9 significant digits) - an over-fine abstraction: two states merge
only if every stored quantity agrees.
"""
import copy
import hashlib
import inspect
import math
import warnings

import numpy as np

warnings.simplefilter("ignore")

# ---------------------------------------------------------------------------
# base shapes (chiral / off-origin / lattice / tabulated)

V6 = [[0, 0, 0], [2, 0, 0], [0, 1, 0], [0, 0, 3.0], [1, 1, 1], [2, 1, 0.5]]
CUBECUT = [[0, 0, 0], [2, 0, 0], [0, 2, 0], [2, 2, 0], [0, 0, 2], [2, 0, 2], [0, 2, 2], [2, 1, 2], [1, 2, 2], [2, 2, 1]]  # cube with one corner cut: coplanar facets, chiral-free lattice
TRTET = [[1, 1, 3], [1, 3, 1], [3, 1, 1], [-1, -1, 3], [-1, -3, 1], [-3, -1, 1], [-1, 1, -3], [-1, 3, -1], [-3, 1, -1], [1, -1, -3], [1, -3, -1], [3, -1, -1]]
LPOLY = [[0, 0], [3, 0], [3, 1], [1, 1], [1, 2], [0, 2]]  # non-convex, chiral
QUAD = [[0, 0], [4, 0], [5, 2], [1, 3]]  # irregular convex
RECT = [[0, 0], [3, 0], [3, 1], [0, 1]]


def _rot(q):
    from .alphabet import quat_to_matrix

    return np.array(quat_to_matrix(q))


def _hull_faces(v):
    from coxeter.shapes import ConvexPolyhedron

    return [np.array(f) for f in ConvexPolyhedron(v).faces]


def _triangulate(faces):
    out = []
    for f in faces:
        f = list(f)
        for i in range(1, len(f) - 1):
            out.append(np.array([f[0], f[i], f[i + 1]]))
    return out


def _lsolid(cells=((0, 0, 0), (1, 0, 0), (0, 1, 0), (0, 0, 1))):
    from .alphabet import _vox_mesh

    verts, faces = _vox_mesh(list(cells))
    return np.array(verts, float), [np.array(f) for f in faces]


def make_base(name):
    from coxeter import shapes as S

    cls, tag = name.split("/")
    if tag == "centred":
        # centroid exactly at the origin: a resize about the origin leaves the centre where it was, so a memo keyed
        # on the centre alone survives the resize (wave-7 seed W7_C14a); built afresh, so no cache is warm
        b = make_base(cls + "/" + ("xy" if "olygon" in cls else "chiral"))
        v = np.array(b.vertices, float) - np.asarray((b.polygon if hasattr(b, "polygon") else b).centroid, float)
        if cls == "ConvexPolyhedron":
            return S.ConvexPolyhedron(v)
        if cls == "ConvexPolygon":
            return S.ConvexPolygon(v, normal=np.array(b.normal, float).copy())
        return S.ConvexSpheropolygon(v, b.radius, normal=np.array(b.normal, float).copy())
    off = np.array([1.0, 2.0, 3.0])
    R = _rot((1, 2, 3, 4))
    if cls in ("ConvexPolyhedron", "Polyhedron", "ConvexSpheropolyhedron"):
        if tag == "tiny":
            # absolute tolerances (np.isclose(x, y) with atol 1e-8) only show on small shapes
            v = (np.array(V6, float) @ R.T + off) * 1e-3
            if cls == "ConvexPolyhedron":
                return S.ConvexPolyhedron(v)
            if cls == "ConvexSpheropolyhedron":
                return S.ConvexSpheropolyhedron(v, 0.3e-3)
            return S.Polyhedron(v, _hull_faces(v), faces_are_convex=True)
        if tag == "chiral":
            v = np.array(V6, float) @ R.T + off
        elif tag == "lattice":
            v = np.array(CUBECUT, float) + np.array([3.0, -1.0, 0.5])
        elif tag == "simplex":
            # a scalene tetrahedron: circumsphere AND insphere exist, so every *_radius setter can be honoured
            v = np.array([[0, 0, 0], [3, 0, 0], [0.5, 2, 0], [1, 0.7, 2.5]], float) @ R.T + off
        elif tag == "tab":
            v = np.array(TRTET, float) * 0.37 @ _rot((2, -1, 5, 3)).T + np.array([-4.0, 0.5, 2.0])
        elif tag == "tri":
            v = np.array(CUBECUT, float) + np.array([3.0, -1.0, 0.5])
        elif tag == "scrambled":
            # faces given in non-cyclic vertex order and with mixed winding: the state sort_faces is for
            v = np.array(CUBECUT, float) + np.array([3.0, -1.0, 0.5])
            fs = []
            for i, f in enumerate(_hull_faces(v)):
                f = [int(x) for x in f]
                if i % 2:
                    f = f[::-1]
                if len(f) > 3 and i % 3 == 0:
                    f[1], f[2] = f[2], f[1]
                fs.append(np.array(f))
            return S.Polyhedron(v, fs, faces_are_convex=True)
        elif tag == "lsolid":
            v, faces = _lsolid()
            v = v @ R.T * 1.5 + off
            return S.Polyhedron(v, faces, faces_are_convex=True)
        elif tag == "ushape":
            # not star-shaped about its centroid (the centroid lies in the gap of the U)
            v, faces = _lsolid(((0, 0, 0), (1, 0, 0), (2, 0, 0), (0, 1, 0), (2, 1, 0), (0, 2, 0), (2, 2, 0)))
            v = v @ _rot((2, -1, 5, 3)).T * 0.8 + np.array([-2.0, 3.0, 1.0])
            return S.Polyhedron(v, faces, faces_are_convex=True)
        if cls == "ConvexPolyhedron":
            return S.ConvexPolyhedron(v)
        if cls == "ConvexSpheropolyhedron":
            return S.ConvexSpheropolyhedron(v, 0.3)
        faces = _hull_faces(v)
        if tag == "tri":
            return S.Polyhedron(v, _triangulate(faces))
        return S.Polyhedron(v, faces, faces_are_convex=True)
    # 2-D classes, embedded in a tilted plane away from the origin
    if tag == "chiral":
        p = np.array(LPOLY if cls == "Polygon" else QUAD, float)
    elif tag == "lattice":
        p = np.array(RECT, float)
    elif tag == "simplex":
        # a scalene triangle: circumcircle and incircle exist
        p = np.array([[0, 0], [4, 0], [1, 2.5]], float)
    elif tag == "cw":
        p = np.array((LPOLY if cls == "Polygon" else QUAD)[::-1], float)
    elif tag == "xy":
        p = np.array(LPOLY if cls == "Polygon" else QUAD, float) + np.array([2.0, -3.0])
    elif tag == "down":
        # in the xy-plane (so distance_to_surface applies), listed clockwise: the stored normal is -z
        p = np.array((LPOLY if cls == "Polygon" else QUAD)[::-1], float) + np.array([-1.0, 2.0])
    elif tag in ("neg", "tiny"):
        p = np.array(LPOLY if cls == "Polygon" else QUAD, float)
    p3 = np.hstack([p, np.zeros((len(p), 1))])
    if tag not in ("xy", "down"):
        p3 = p3 @ R.T + off
    if tag == "tiny":
        p3 = p3 * 1e-4
    if cls == "Polygon" and tag == "neg":
        # vertices run clockwise about the stored normal (explicit normal opposite to the vertex order)
        return S.Polygon(p3, normal=-(R @ np.array([0.0, 0.0, 1.0])))
    if cls == "Polygon":
        return S.Polygon(p3)
    if cls == "ConvexPolygon":
        return S.ConvexPolygon(p3)
    return S.ConvexSpheropolygon(p3, 0.4)


BASES = [
    "ConvexPolyhedron/chiral",
    "ConvexPolyhedron/lattice",
    "ConvexPolyhedron/tab",
    "Polyhedron/chiral",
    "Polyhedron/lattice",
    "Polyhedron/tri",
    "Polyhedron/lsolid",
    "Polyhedron/ushape",
    "ConvexSpheropolyhedron/chiral",
    "ConvexSpheropolyhedron/lattice",
    "Polygon/chiral",
    "Polygon/cw",
    "Polygon/xy",
    "Polygon/neg",
    "Polygon/tiny",
    "ConvexPolyhedron/tiny",
    "Polyhedron/tiny",
    "ConvexSpheropolyhedron/tiny",
    "ConvexPolygon/tiny",
    "ConvexPolygon/chiral",
    "ConvexPolygon/lattice",
    "ConvexPolygon/xy",
    "ConvexSpheropolygon/chiral",
    "ConvexSpheropolygon/lattice",
    "ConvexSpheropolygon/xy",
    "ConvexPolygon/down",
    "ConvexSpheropolygon/down",
    "Polyhedron/scrambled",
    "ConvexPolyhedron/simplex",
    "Polyhedron/simplex",
    "ConvexPolygon/simplex",
    "Polygon/simplex",
]

# C03 explores histories from these; C08 (single steps) additionally starts from every tiny base
BASES_C03 = [b for b in BASES if b not in ("Polyhedron/tiny", "ConvexSpheropolyhedron/tiny", "ConvexPolygon/tiny", "Polyhedron/simplex", "Polygon/simplex")]
# start states whose centroid is exactly the origin (C03 only)
BASES_C03 += ["ConvexPolygon/centred", "ConvexSpheropolygon/centred", "ConvexPolyhedron/centred"]

# ---------------------------------------------------------------------------
# canonical state


def _enc(v, out, depth=0):
    if isinstance(v, np.ndarray):
        if v.dtype.kind == "f":
            a = np.asarray(v, float)
            with np.errstate(all="ignore"):
                mag = np.max(np.abs(a[np.isfinite(a)])) if a.size and np.isfinite(a).any() else 0.0
                q = mag * 1e-9 if mag > 0 else 1.0
                r = np.round(a / q)
            out.append(("f", a.shape, float(mag).hex()[:12] if False else round(math.log10(mag), 6) if mag > 0 else 0, r.astype(np.int64).tobytes() if np.isfinite(r).all() else repr(r.tolist())))
        else:
            out.append(("a", v.dtype.str, v.shape, v.tobytes()))
    elif isinstance(v, (list, tuple)):
        out.append(("l", len(v)))
        for x in v:
            _enc(x, out, depth + 1)
    elif isinstance(v, dict):
        for k in sorted(v, key=repr):
            out.append(("k", repr(k)))
            _enc(v[k], out, depth + 1)
    elif isinstance(v, (float, np.floating)):
        _enc(np.array([float(v)]), out, depth + 1)
    elif isinstance(v, (int, str, bool, np.integer, np.bool_)) or v is None:
        out.append(("s", repr(v)))
    elif hasattr(v, "__dict__") and depth < 4:
        out.append(("o", type(v).__name__))
        _enc(vars(v), out, depth + 1)
    else:
        out.append(("r", repr(v)))


def canon(obj):
    out = []
    _enc(vars(obj), out)
    return hashlib.sha1(repr(out).encode()).hexdigest()


def exact_state(obj):
    """Bit-exact fingerprint of the whole instance dictionary."""
    out = []

    def enc(v, d=0):
        if isinstance(v, np.ndarray):
            out.append((v.dtype.str, v.shape, v.tobytes()))
        elif isinstance(v, (list, tuple)):
            out.append(len(v))
            for x in v:
                enc(x, d + 1)
        elif isinstance(v, dict):
            for k in sorted(v, key=repr):
                out.append(repr(k))
                enc(v[k], d + 1)
        elif hasattr(v, "__dict__") and d < 4:
            enc(vars(v), d + 1)
        elif isinstance(v, float):
            out.append(v.hex())
        else:
            out.append(repr(v))

    enc(vars(obj))
    return hashlib.sha1(repr(out).encode()).hexdigest()


def key_tree(obj, depth=0):
    """Names of the stored fields (recursively for nested shape objects)."""
    t = {}
    for k, v in vars(obj).items():
        t[k] = key_tree(v, depth + 1) if (hasattr(v, "__dict__") and depth < 3 and not isinstance(v, np.ndarray)) else None
    return t


def exact_state_on(obj, tree):
    """Bit-exact fingerprint restricted to the fields named in `tree` (so that private memo
    fields that appear later do not count as a change of the shape)."""

    class _V:
        pass

    def restrict(o, t):
        v = _V()
        for k, sub in t.items():
            if k in vars(o):
                x = vars(o)[k]
                v.__dict__[k] = restrict(x, sub) if (sub is not None and hasattr(x, "__dict__")) else x
            else:
                v.__dict__["<missing:%s>" % k] = True
        return v

    return exact_state(restrict(obj, tree))


# ---------------------------------------------------------------------------
# operation alphabet (by reflection)

CENTRE_LIKE = ("center", "centroid")
MUTATORS = ("diagonalize_inertia", "merge_faces", "sort_faces", "to_hoomd")
QUERY_READS = {
    "get_face_area()": lambda o: o.get_face_area(),
    "is_inside(centroid)": lambda o: o.is_inside(np.asarray(o.centroid if not hasattr(o, "polyhedron") else o.polyhedron.centroid, float)),
    # queries with arguments spread over all regions of the shape (core, face slabs, edge wedges,
    # vertex caps, outside): a memo that is only filled on some code path still becomes an operation
    "is_inside(probes)": lambda o: o.is_inside(probes_for(o)["points"]),
    "compute_form_factor_amplitude(q)": lambda o: o.compute_form_factor_amplitude(probes_for(o)["q"]),
    "distance_to_surface(angles)": lambda o: o.distance_to_surface(probes_for(o)["angles"]),
    "get_dihedral(0,nb)": lambda o: o.get_dihedral(0, int(np.asarray(o.neighbors[0]).reshape(-1)[0])),
    "to_json": lambda o: o.to_json(["vertices"]),
    "repr": lambda o: repr(o),
    "gsd_shape_spec": lambda o: o.gsd_shape_spec,
}


def public_properties(cls):
    out = []
    for name, m in inspect.getmembers(cls):
        if name.startswith("_"):
            continue
        if isinstance(m, property) or type(m).__name__ == "cached_property":
            out.append((name, m))
    return out


def discover_ops(base):
    """Operation names available on this object, in simplest-first order."""
    cls = type(base)
    ops = []
    props = public_properties(cls)
    for name, m in props:
        if not (isinstance(m, property) and m.fset):
            continue
        try:
            getattr(copy.deepcopy(base), name)
        except NotImplementedError:
            continue  # not offered by the class
        except Exception:
            pass  # e.g. RuntimeError("no circumsphere"): the setter must then raise and leave the state alone
        if name in CENTRE_LIKE:
            ops += ["set:%s=origin" % name, "set:%s=123" % name, "set:%s=rel" % name]
            if name == "centroid":
                ops += ["set:centroid=bad2", "set:centroid=badNone"]  # malformed values: must raise without moving the shape
        else:
            ops += ["set:%s*0.5" % name, "set:%s*2" % name]
            if name == "radius" and "Sphero" in cls.__name__:
                ops.append("set:radius=0")
            ops.append("set:%s=neg" % name)
    for mname in MUTATORS:
        if callable(getattr(cls, mname, None)):
            ops.append("call:" + mname)
    # the documented handle to the underlying polytope of a rounded shape: resizing / moving / reorienting
    # the core through it is a public mutation of the rounded shape as well
    for handle in ("polyhedron", "polygon"):
        core = getattr(base, handle, None) if isinstance(getattr(cls, handle, None), property) else None
        if core is not None and getattr(base, handle) is core:
            for cname, m in public_properties(type(core)):
                if isinstance(m, property) and m.fset and cname in ("volume", "surface_area", "area", "perimeter", "centroid"):
                    if cname == "centroid":
                        ops.append("core:set:centroid=rel")
                    else:
                        ops.append("core:set:%s*2" % cname)
            if callable(getattr(type(core), "diagonalize_inertia", None)):
                ops.append("core:call:diagonalize_inertia")
    # reads that write: any getter/query whose evaluation changes the instance dictionary
    for name, m in props:
        c = copy.deepcopy(base)
        before = exact_state(c)
        try:
            with warnings.catch_warnings():
                warnings.simplefilter("ignore")
                getattr(c, name)
        except Exception:
            continue
        if exact_state(c) != before:
            ops.append("read:" + name)
    for qname, fn in QUERY_READS.items():
        c = copy.deepcopy(base)
        before = exact_state(c)
        try:
            fn(c)
        except Exception:
            continue
        if exact_state(c) != before:
            ops.append("read:" + qname)
    return ops


def _reseed():
    """Own the only nondeterminism (miniball pivots via `random`, retry rotations via numpy's
    global RNG): every observable / operation starts from the same RNG state, so a mutated
    object and its fresh twin see the same pivot schedule."""
    import random

    random.seed(12345)
    np.random.seed(12345)


def apply_op(obj, op):
    _reseed()
    kind, rest = op.split(":", 1)
    if kind == "core":
        core = getattr(obj, "polyhedron", None) if hasattr(obj, "polyhedron") else getattr(obj, "polygon")
        return apply_op(core, rest)
    if kind == "set":
        if "=" in rest and rest.split("=")[0] in CENTRE_LIKE:
            name, tag = rest.split("=")
            if tag in ("bad2", "badNone"):
                setattr(obj, name, (1.5, -2.5) if tag == "bad2" else None)
                return
            # targets are relative to the size of the shape (offset / diameter stays <= ~10)
            vv = defining_vertices(obj)
            size = float(np.linalg.norm(vv.max(0) - vv.min(0))) or 1.0
            unit = size / 4.0
            if tag == "origin":
                val = np.array([0.0, 0.0, 0.0])
            elif tag == "123":
                val = np.array([1.0, 2.0, 3.0]) * unit
            else:
                val = np.asarray(getattr(obj, name), float) + np.array([-2.0, 0.0, 5.0]) * unit
            # 2-D shapes must stay in their plane for the other observables to make sense:
            # translate within the plane only
            if hasattr(obj, "normal") and tag != "rel":
                n = np.asarray(obj.normal, float)
                cur = np.asarray(getattr(obj, name), float)
                d = val - cur
                val = cur + d  # a polygon may be translated out of its plane; that is legitimate
            setattr(obj, name, val)
            return
        if rest.endswith("=neg"):
            name = rest[:-4]
            cur = abs(float(getattr(obj, name)))
            setattr(obj, name, -cur if cur > 0 else -1.0)
            return
        if rest == "radius=0":
            obj.radius = 0.0
            return
        name, k = rest.split("*")
        setattr(obj, name, float(getattr(obj, name)) * float(k))
        return
    if kind == "call":
        with warnings.catch_warnings():
            warnings.simplefilter("ignore")
            getattr(obj, rest)()
        return
    if kind == "read":
        with warnings.catch_warnings():
            warnings.simplefilter("ignore")
            if rest in QUERY_READS:
                QUERY_READS[rest](obj)
            else:
                getattr(obj, rest)
        return
    raise ValueError(op)


def is_nonpositive_op(op):
    return op.endswith("=neg") or op.endswith("=bad2") or op.endswith("=badNone")


# ---------------------------------------------------------------------------
# fresh reference object


def defining_vertices(obj):
    if not hasattr(obj, "vertices"):
        return np.asarray(obj.centroid, float).reshape(1, 3)
    return np.array(obj.vertices, float)


def fresh_like(obj):
    from coxeter import shapes as S

    cls = type(obj)
    v = defining_vertices(obj).copy()
    if cls is S.ConvexPolyhedron:
        return S.ConvexPolyhedron(v)
    if cls is S.Polyhedron:
        return S.Polyhedron(v, [np.array(f).copy() for f in obj.faces], faces_are_convex=obj._faces_are_convex)
    if cls is S.ConvexSpheropolyhedron:
        return S.ConvexSpheropolyhedron(v, obj.radius)
    if cls is S.Polygon:
        return S.Polygon(v, normal=np.array(obj.normal, float).copy())
    if cls is S.ConvexPolygon:
        return S.ConvexPolygon(v, normal=np.array(obj.normal, float).copy())
    if cls is S.ConvexSpheropolygon:
        return S.ConvexSpheropolygon(v, obj.radius, normal=np.array(obj.normal, float).copy())
    raise TypeError(cls)


def twin_of(obj):
    """fresh object with the same defining data (also for curved shapes)"""
    from coxeter import shapes as S

    if hasattr(obj, "vertices"):
        return fresh_like(obj)
    c = np.array(obj.centroid, float).copy()
    if isinstance(obj, S.Circle):
        return S.Circle(obj.radius, c)
    if isinstance(obj, S.Sphere):
        return S.Sphere(obj.radius, c)
    if isinstance(obj, S.Ellipse):
        return S.Ellipse(obj.a, obj.b, c)
    if isinstance(obj, S.Ellipsoid):
        return S.Ellipsoid(obj.a, obj.b, obj.c, c)
    raise TypeError(type(obj))


# ---------------------------------------------------------------------------
# observables, compared modulo face relabelling


def _cyc(f):
    f = [int(x) for x in f]
    i = f.index(min(f))
    return tuple(f[i:] + f[:i])


def _fkey(f):
    return frozenset(int(x) for x in f)


FACE_INDEXED = ("faces", "normals", "equations", "neighbors", "face_centroids")
SKIP_PROPS = ("bounding_sphere", "bounding_circle", "insphere_from_center", "circumsphere_from_center", "incircle_from_center", "polyhedron", "polygon", "vertices")


def _poly_of(obj):
    return getattr(obj, "_polyhedron", None) or obj


def observe(obj, probes=None):
    """name -> ('val', value) | ('exc', type name).  Face-indexed values become dicts
    keyed by the face's vertex set, so that two objects with differently ordered faces
    compare equal exactly when they describe the same structure."""
    out = {}
    cls = type(obj)
    core = _poly_of(obj)
    faces = None
    if hasattr(core, "faces") and not hasattr(core, "normal"):
        try:
            faces = [list(map(int, f)) for f in core.faces]
        except Exception:
            faces = None
    fkeys = [_fkey(f) for f in faces] if faces is not None else None

    def put(name, fn):
        _reseed()
        try:
            with warnings.catch_warnings():
                warnings.simplefilter("ignore")
                out[name] = ("val", fn())
        except NotImplementedError:
            pass
        except Exception as ex:
            out[name] = ("exc", type(ex).__name__)

    for name, m in public_properties(cls):
        if name in SKIP_PROPS:
            continue
        if name == "faces":
            put("faces", lambda: sorted(_cyc(f) for f in obj.faces))
        elif name in ("normals", "equations", "face_centroids"):
            put(name, lambda name=name: {k: np.array(v, float) for k, v in zip(fkeys, np.asarray(getattr(obj, name), float))})
        elif name == "neighbors":
            put("neighbors", lambda: sorted(sorted((sorted(fkeys[i]), sorted(fkeys[int(j)]))) for i, nb in enumerate(obj.neighbors) for j in nb))
        elif name == "edges":
            put("edges", lambda: [tuple(map(int, e)) for e in obj.edges])
        elif name in ("edge_vectors", "edge_lengths"):
            put(name, lambda name=name: {tuple(map(int, e)): np.array(v, float) for e, v in zip(obj.edges, np.asarray(getattr(obj, name), float))})
        elif name == "simplices":
            put("simplices", lambda: _simplex_summary(obj))
        elif name == "gsd_shape_spec":
            put(name, lambda: _gsd_canon(obj.gsd_shape_spec))
        else:
            put(name, lambda name=name: _plain(getattr(obj, name)))
    if faces is not None and hasattr(obj, "get_face_area"):
        put("get_face_area()", lambda: {k: float(a) for k, a in zip(fkeys, np.asarray(obj.get_face_area(), float))})
    if faces is not None and hasattr(core, "get_dihedral") and hasattr(obj, "get_dihedral"):
        def dih():
            d = {}
            for i, nb in enumerate(obj.neighbors):
                for j in nb:
                    if i < int(j):
                        a = float(obj.get_dihedral(i, int(j)))
                        if a != a:
                            # arccos of -1-eps for coplanar neighbours: evaluate the same formula
                            # with clipping, still from the object's own (possibly stale) normals
                            nn = np.asarray(obj.normals, float)
                            a = float(np.arccos(np.clip(np.dot(-nn[i], nn[int(j)]), -1.0, 1.0)))
                        d[frozenset((fkeys[i], fkeys[int(j)]))] = a
            return d

        put("get_dihedral(all)", dih)
    if probes is not None and hasattr(obj, "is_inside"):
        put("is_inside(probes)", lambda: np.asarray(obj.is_inside(probes["points"]), bool))
    if probes is not None and hasattr(obj, "compute_form_factor_amplitude"):
        put("form_factor(q)", lambda: np.asarray(obj.compute_form_factor_amplitude(probes["q"]), complex))
    if probes is not None and hasattr(obj, "distance_to_surface") and probes.get("angles") is not None:
        put("distance_to_surface", lambda: np.asarray(obj.distance_to_surface(probes["angles"].copy()), float))
    put("repr", lambda: _repr_canon(obj))
    return out


def _simplex_summary(obj):
    """Signed volume and total area of the stored triangulation w.r.t. the current vertices
    and a check that every simplex lies in one face."""
    v = np.asarray(obj.vertices, float)
    s = np.asarray(obj.simplices)
    tri = v[s]
    vol = float(np.sum(np.linalg.det(tri)) / 6.0)
    area = float(np.sum(np.linalg.norm(np.cross(tri[:, 1] - tri[:, 0], tri[:, 2] - tri[:, 0]), axis=1)) / 2)
    fk = [_fkey(f) for f in obj.faces]
    homes = sum(1 for t in s if sum(1 for k in fk if _fkey(t) <= k) == 1)
    return {"signed_volume": vol, "area": area, "n": int(len(s)), "in_one_face": int(homes)}


def _plain(v):
    from coxeter.shapes.base_classes import Shape

    if isinstance(v, Shape):
        d = {"class": type(v).__name__}
        for k in ("radius", "a", "b", "c"):
            if hasattr(v, k):
                d[k] = float(getattr(v, k))
        d["centre"] = np.asarray(v.centroid, float).reshape(-1)
        return d
    if isinstance(v, tuple):
        return np.asarray(v, float) if all(isinstance(x, (int, float, np.floating, np.integer)) for x in v) else v
    return v


def _gsd_canon(d):
    d = dict(d)
    if "indices" in d:
        d["indices"] = sorted(_cyc(f) for f in d["indices"])
    if "vertices" in d:
        d["vertices"] = np.asarray(d["vertices"], float)
    return d


def _repr_canon(obj):
    r = repr(obj)
    return r.split("(")[0]


def _cmp(a, b, rtol, floor):
    """Array-wise relative comparison; returns (ok, detail)."""
    if isinstance(a, dict) and isinstance(b, dict):
        if set(a) != set(b):
            return False, "keys differ: %s vs %s" % (sorted(map(repr, set(a) - set(b)))[:3], sorted(map(repr, set(b) - set(a)))[:3])
        # one common magnitude for numeric dict values
        for k in a:
            ok, d = _cmp(a[k], b[k], rtol, floor)
            if not ok:
                return False, "[%s] %s" % (k if not isinstance(k, frozenset) else sorted(map(lambda x: sorted(x) if isinstance(x, frozenset) else x, k)), d)
        return True, ""
    if isinstance(a, (str, bool, type(None))) or isinstance(b, (str, bool, type(None))):
        return (a == b), "%r != %r" % (a, b)
    if isinstance(a, np.ndarray) and a.dtype == object:
        a = list(a)
    if isinstance(b, np.ndarray) and b.dtype == object:
        b = list(b)
    if isinstance(a, (list, tuple)) and isinstance(b, (list, tuple)) and len(a) and not isinstance(a[0], (int, float, np.floating, np.integer, complex)):
        if len(a) != len(b):
            return False, "length %d != %d" % (len(a), len(b))
        for x, y in zip(a, b):
            ok, d = _cmp(x, y, rtol, floor)
            if not ok:
                return False, d
        return True, ""
    try:
        A = np.asarray(a)
        B = np.asarray(b)
    except Exception:
        try:
            return bool(a == b), "%r != %r" % (a, b)
        except Exception:
            return repr(a) == repr(b), "%r != %r" % (a, b)
    if A.dtype.kind in "bSUO" or B.dtype.kind in "bSUO":
        same = A.shape == B.shape and bool(np.all(A == B))
        return same, "%s != %s" % (A.tolist(), B.tolist())
    if A.shape != B.shape:
        return False, "shape %s != %s" % (A.shape, B.shape)
    if A.dtype.kind in "iu" and B.dtype.kind in "iu":
        return bool(np.all(A == B)), "%s != %s" % (A.tolist(), B.tolist())
    with np.errstate(all="ignore"):
        fa, fb = np.isfinite(A), np.isfinite(B)
        if not (fa == fb).all() or not np.array_equal(np.isnan(A), np.isnan(B)):
            return False, "non-finite entries differ: %s vs %s" % (A.tolist(), B.tolist())
        if not fa.all():
            # same non-finite pattern on both sides (both objects agree); compare the finite part
            if not np.array_equal(A[~fa & ~np.isnan(A)], B[~fb & ~np.isnan(B)]):
                return False, "infinite entries differ"
            A, B = A[fa], B[fb]
        mag = max(float(np.max(np.abs(A))) if A.size else 0.0, float(np.max(np.abs(B))) if B.size else 0.0)
        err = float(np.max(np.abs(A - B))) if A.size else 0.0
    tol = rtol * mag + floor
    return err <= tol, "got %s, fresh object gives %s (|diff|=%.3g > %.3g)" % (np.round(A, 12).tolist() if A.size < 13 else "array%s" % (A.shape,), np.round(B, 12).tolist() if B.size < 13 else "", err, tol)


def compare_observations(got, want, L, D):
    """-> list of (name, detail) for observables that differ."""
    bad = []
    for name in sorted(set(got) | set(want)):
        if name not in got or name not in want:
            bad.append((name, "present on one side only"))
            continue
        (kg, vg), (kw, vw) = got[name], want[name]
        if kg != kw:
            bad.append((name, "%s %r vs fresh %s %r" % (kg, vg if kg == "exc" else "value", kw, vw if kw == "exc" else "value")))
            continue
        if kg == "exc":
            if vg != vw:
                bad.append((name, "raises %s, fresh object raises %s" % (vg, vw)))
            continue
        rtol, floor = 1e-8, 0.0
        if name in ("centroid", "center"):
            floor = 1e-9 * D
        elif name in ("normals",):
            rtol, floor = 0.0, 1e-8
        elif name in ("equations",):
            rtol, floor = 0.0, 1e-8 * max(D, 1.0)
        elif name in ("get_dihedral(all)",):
            rtol, floor = 0.0, 2e-6  # arccos near +-1 amplifies rounding to sqrt(eps)
        elif "bounding" in name or "bounded" in name or "circum" in name or name in ("insphere", "incircle", "insphere_radius", "incircle_radius"):
            rtol, floor = 1e-6, 1e-6 * D  # miniball's own epsilon
        elif name == "form_factor(q)":
            floor = 1e-9 * max(abs(complex(np.max(np.abs(vw)))), 1e-300)
        elif name in ("face_centroids", "edge_vectors"):
            floor = 1e-9 * D
        elif name in ("inertia_tensor",):
            floor = 1e-9 * L**3 * D * D if "vol" else 0.0
        elif name in ("planar_moments_inertia", "polar_moment_inertia"):
            floor = 1e-9 * L * L * D * D
        elif name == "simplices":
            rtol = 1e-8
        ok, detail = _cmp(vg, vw, rtol, floor)
        if not ok:
            bad.append((name, detail))
    return bad


# ---------------------------------------------------------------------------
# rigid-motion tracking ("never mirrors")


def similarity_fit(base_v, cur_v):
    """Best orthogonal fit cur ~ s * base @ Q^T + t.  Returns (det(Q), relative residual, s)."""
    A = np.asarray(base_v, float)
    B = np.asarray(cur_v, float)
    if A.shape != B.shape or not np.isfinite(B).all():
        return None
    a = A - A.mean(0)
    b = B - B.mean(0)
    na, nb = np.linalg.norm(a), np.linalg.norm(b)
    if na == 0 or nb == 0:
        return (0.0, float("inf"), 0.0)
    s = nb / na
    H = a.T @ b
    U, _, Vt = np.linalg.svd(H)
    Q = (U @ Vt).T
    res = np.linalg.norm(b - s * a @ Q.T) / nb
    return float(np.linalg.det(Q)), float(res), float(s)


def probes_for(obj):
    v = defining_vertices(obj)
    lo, hi = v.min(0), v.max(0)
    c = v.mean(0)
    L = float(np.linalg.norm(hi - lo))
    pts = [c]
    targets = [w for w in v[: min(len(v), 6)]]
    core = _poly_of(obj)
    try:
        if hasattr(core, "faces") and not hasattr(core, "normal"):
            for f in list(core.faces)[:6]:
                targets.append(v[list(map(int, f))].mean(0))  # through face centroids: face slabs
        for i in range(min(len(v), 4)):
            targets.append(0.5 * (v[i] + v[(i + 1) % len(v)]))  # through edge midpoints (edges for polygons)
    except Exception:
        pass
    for t in (0.25, 0.6, 1.15, 1.4, 2.5):
        for w in targets:
            pts.append(c + t * (w - c))
    pts.append(c + 10 * L)
    d = {"points": np.array(pts), "q": None, "angles": None}
    u = np.array([[0.0, 0.0, 0.0], [1.0, 0.0, 0.0], [0.0, 0.7, 0.0], [0.3, -0.2, 0.9], [-1.1, 0.4, 0.2], [2.0, 2.0, -1.0]])
    d["q"] = u * (3.0 / max(L, 1e-300))
    if hasattr(obj, "distance_to_surface"):
        d["angles"] = np.linspace(-7.0, 7.0, 29)
    return d


def margin_filter(fresh, probes):
    """Drop probe points that are within 1e-6 L of the fresh object's boundary
    (decided with the fresh object's own geometry, using plain point-triangle / point-
    segment distances)."""
    from coxeter import shapes as S

    pts = probes["points"]
    v = defining_vertices(fresh)
    L = float(np.linalg.norm(v.max(0) - v.min(0)))
    core = _poly_of(fresh)
    keep = np.ones(len(pts), bool)
    try:
        if hasattr(core, "faces") and not hasattr(core, "normal"):
            tris = []
            for f in core.faces:
                f = list(map(int, f))
                for i in range(1, len(f) - 1):
                    tris.append((v[f[0]], v[f[i]], v[f[i + 1]]))
            r = getattr(fresh, "radius", 0.0) if isinstance(fresh, S.ConvexSpheropolyhedron) else 0.0
            from .refs import dist_points_to_triangles

            dmin = dist_points_to_triangles(pts, tris)
            keep &= ~(np.abs(dmin - r) < 1e-6 * L)
        else:
            r = float(getattr(fresh, "radius", 0.0) or 0.0)
            for k, p in enumerate(pts):
                dmin = min(_pt_seg_dist(p, v[i], v[(i + 1) % len(v)]) for i in range(len(v)))
                if abs(dmin - r) < 1e-6 * L or abs(dmin) < 1e-6 * L:
                    keep[k] = False
    except Exception:
        pass
    out = dict(probes)
    out["points"] = pts[keep]
    return out


def _pt_seg_dist(p, a, b):
    ab = b - a
    t = np.dot(p - a, ab) / max(np.dot(ab, ab), 1e-300)
    t = min(1.0, max(0.0, t))
    return float(np.linalg.norm(p - (a + t * ab)))


def _pt_tri_dist(p, a, b, c):
    n = np.cross(b - a, c - a)
    nn = np.linalg.norm(n)
    if nn == 0:
        return min(_pt_seg_dist(p, a, b), _pt_seg_dist(p, b, c))
    n = n / nn
    h = np.dot(p - a, n)
    q = p - h * n
    inside = True
    for x, y in ((a, b), (b, c), (c, a)):
        if np.dot(np.cross(y - x, q - x), n) < 0:
            inside = False
            break
    if inside:
        return abs(float(h))
    return min(_pt_seg_dist(p, a, b), _pt_seg_dist(p, b, c), _pt_seg_dist(p, c, a))
