#!/venv/bin/python
"""store a confirmed seeded change under /verif/seeded/<id>/ (patch.diff, demo.py, notes.md, meta.json)"""
import argparse, json, os, shutil
ap = argparse.ArgumentParser()
ap.add_argument("id"); ap.add_argument("src")
ap.add_argument("--property", required=True)
ap.add_argument("--needs", required=True)
ap.add_argument("--detected-by", default="")
ap.add_argument("--missed-before", default="", help="checks that missed it before being strengthened, and what was strengthened")
ap.add_argument("--confirm", default="", help="line from the confirmation log")
a = ap.parse_args()
d = os.path.join("/verif/seeded", a.id)
os.makedirs(d, exist_ok=True)
for f in ("patch.diff", "demo.py", "notes.md"):
    shutil.copy(os.path.join(a.src, f), os.path.join(d, f))
meta = {
    "id": a.id, "breaks_property": a.property, "origin": "independent sub-agent given only the property text and a scratch worktree",
    "needs_to_manifest": a.needs,
    "confirmed": {"how": "scratch worktree /tmp/wt/%s: git apply patch.diff; pytest -q -p no:cacheprovider --timeout=900 -n 8 (suite green); demo.py exits 1 with the patch and 0 on the clean tree" % a.property, "log": a.confirm},
    "checks_run": "tools/eval_seed.sh (git -C /repo apply; ./run check <ids> --tier quick; git -C /repo checkout -- .)",
    "detected_by": [c for c in a.detected_by.split(",") if c],
    "missed_before_strengthening": a.missed_before,
}
json.dump(meta, open(os.path.join(d, "meta.json"), "w"), indent=1)
print("stored", d)
