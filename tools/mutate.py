#!/venv/bin/python
"""Mutation sensitivity run for the checks (tooling, not a registered check).

A mutant is one small source edit of /repo/coxeter applied to a scratch COPY (never to /repo).
For each mutant the checks that execute the mutated line (according to tools/cov.py data in
/tmp/vcov) are run with COXETER_REPO pointing at the copy: first sub-sampled (VERIF_STRIDE) with
VERIF_FAILFAST, and if that is silent the complete quick tier.  Output: one JSON line per mutant in
/verif/mutation/results.jsonl (killed-by / survived), reviewed by hand afterwards.

  tools/mutate.py gen                     -> /tmp/mut/mutants.json
  tools/mutate.py run SLOT NSLOTS [every] -> runs mutants i with i % NSLOTS == SLOT (and i % every == 0)
  tools/mutate.py report
"""
import ast, json, os, re, shutil, subprocess, sys, time

REPO = "/repo"
MUT = "/tmp/mut"
FILES = [
    "coxeter/shapes/base_classes.py", "coxeter/shapes/circle.py", "coxeter/shapes/convex_polygon.py",
    "coxeter/shapes/convex_polyhedron.py", "coxeter/shapes/convex_spheropolygon.py",
    "coxeter/shapes/convex_spheropolyhedron.py", "coxeter/shapes/ellipse.py", "coxeter/shapes/ellipsoid.py",
    "coxeter/shapes/polygon.py", "coxeter/shapes/polyhedron.py", "coxeter/shapes/sphere.py", "coxeter/shapes/utils.py",
    "coxeter/shape_getters.py", "coxeter/io.py", "coxeter/families/common.py", "coxeter/families/plane_shape_families.py",
    "coxeter/families/shape_family.py", "coxeter/families/tabulated_shape_family.py",
    "coxeter/families/doi_data_repositories.py", "coxeter/extern/polytri/polytri.py",
]
SKIP_FUNCS = {"plot", "_plato_primitive", "to_plato_scene", "_generate_ax", "_set_3d_axes_equal", "bounding_circle", "bounding_sphere", "insphere_from_center", "circumsphere_from_center"}
BIN = {ast.Add: (b"+", b"-"), ast.Sub: (b"-", b"+"), ast.Mult: (b"*", b"/"), ast.Div: (b"/", b"*")}
CMP = {ast.Lt: (b"<", b"<="), ast.LtE: (b"<=", b"<"), ast.Gt: (b">", b">="), ast.GtE: (b">=", b">"), ast.Eq: (b"==", b"!="), ast.NotEq: (b"!=", b"==")}
CALLS = {"min": "max", "max": "min", "sin": "cos", "cos": "sin", "argmin": "argmax", "argmax": "argmin", "all": "any", "any": "all", "floor": "ceil", "ceil": "floor"}


def offsets(src):
    offs, o = [0], 0
    for ln in src.split(b"\n"):
        o += len(ln) + 1
        offs.append(o)
    return offs


def gen_file(rel):
    src = open(os.path.join(REPO, rel), "rb").read()
    tree = ast.parse(src)
    offs = offsets(src)
    pos = lambda n, end=False: offs[(n.end_lineno if end else n.lineno) - 1] + (n.end_col_offset if end else n.col_offset)
    out = []

    def add(kind, a, b, new, line):
        out.append({"file": rel, "kind": kind, "a": a, "b": b, "old": src[a:b].decode(), "new": new.decode() if isinstance(new, bytes) else new, "line": line})

    def between(lo, hi, op):
        span = src[lo:hi]
        # drop comments
        m = re.search(re.escape(op) if op not in (b"<", b">", b"*", b"/") else (re.escape(op) + rb"(?![=*/])"), span)
        if not m:
            return None
        return lo + m.start(), lo + m.end()

    def visit(node, skip=False, in_raise=False):
        if isinstance(node, (ast.FunctionDef, ast.AsyncFunctionDef)) and node.name in SKIP_FUNCS:
            return
        if isinstance(node, (ast.Raise, ast.Assert)):
            return
        if isinstance(node, ast.Call) and isinstance(node.func, ast.Attribute) and isinstance(node.func.value, ast.Name) and node.func.value.id == "warnings":
            return
        if isinstance(node, ast.Expr) and isinstance(node.value, ast.Constant) and isinstance(node.value.value, str):
            return
        if isinstance(node, ast.BinOp) and type(node.op) in BIN:
            op, new = BIN[type(node.op)]
            r = between(pos(node.left, True), pos(node.right), op)
            if r:
                add("binop", r[0], r[1], new, node.lineno)
        if isinstance(node, ast.Compare):
            prev = node.left
            for o, c in zip(node.ops, node.comparators):
                if type(o) in CMP:
                    op, new = CMP[type(o)]
                    r = between(pos(prev, True), pos(c), op)
                    if r:
                        add("cmp", r[0], r[1], new, node.lineno)
                prev = c
        if isinstance(node, ast.Constant) and isinstance(node.value, (int, float)) and not isinstance(node.value, bool):
            v = node.value
            new = repr(v + 1) if isinstance(v, int) else repr(v * 2 if v else 1.0)
            add("const", pos(node), pos(node, True), new.encode(), node.lineno)
            if isinstance(v, int) and v >= 1:
                add("const", pos(node), pos(node, True), repr(v - 1).encode(), node.lineno)
        if isinstance(node, ast.UnaryOp) and isinstance(node.op, ast.USub) and not isinstance(node.operand, ast.Constant):
            add("neg", pos(node), pos(node.operand), b"", node.lineno)
        if isinstance(node, ast.UnaryOp) and isinstance(node.op, ast.Not):
            add("not", pos(node), pos(node.operand), b"", node.lineno)
        if isinstance(node, ast.BoolOp):
            op, new = (b"and", b"or") if isinstance(node.op, ast.And) else (b"or", b"and")
            r = between(pos(node.values[0], True), pos(node.values[1]), op)
            if r:
                add("bool", r[0], r[1], new, node.lineno)
        if isinstance(node, ast.Call) and isinstance(node.func, ast.Attribute) and node.func.attr in CALLS:
            a = pos(node.func, True) - len(node.func.attr)
            add("call", a, pos(node.func, True), CALLS[node.func.attr].encode(), node.lineno)
        if isinstance(node, ast.Call) and ((isinstance(node.func, ast.Attribute) and node.func.attr in ("abs", "copy")) or (isinstance(node.func, ast.Name) and node.func.id == "abs")) and len(node.args) == 1 and not node.keywords:
            add("unwrap", pos(node), pos(node, True), b"(" + src[pos(node.args[0]):pos(node.args[0], True)] + b")", node.lineno)
        if isinstance(node, ast.Call) and isinstance(node.func, ast.Attribute) and node.func.attr == "copy" and not node.args:
            add("nocopy", pos(node), pos(node, True), src[pos(node.func.value):pos(node.func.value, True)], node.lineno)
        if isinstance(node, (ast.AugAssign,)) or (isinstance(node, ast.Assign) and all(isinstance(t, (ast.Attribute, ast.Subscript)) for t in node.targets)) or (isinstance(node, ast.Expr) and isinstance(node.value, ast.Call)):
            if node.lineno == node.end_lineno or True:
                add("delstmt", pos(node), pos(node, True), b"pass", node.lineno)
        if isinstance(node, ast.If) and not node.orelse:
            add("iffalse", pos(node.test), pos(node.test, True), b"False", node.lineno)
            add("iftrue", pos(node.test), pos(node.test, True), b"True", node.lineno)
        for ch in ast.iter_child_nodes(node):
            visit(ch)

    visit(tree)
    return out


def load_cov():
    cov = {}
    for f in sorted(os.listdir("/tmp/vcov")):
        if f.endswith(".json"):
            for k, v in json.load(open("/tmp/vcov/" + f)).items():
                for ln in v:
                    cov.setdefault((k[len("/repo/"):], ln), []).append(f[:-5])
    return cov


WALL = {"C20": 2, "C11": 5, "C10": 5, "C15": 6, "C13": 10, "C19": 10, "C18": 12, "C14": 13, "C07": 16, "C16": 19, "C01": 22, "C17": 31, "C03": 32, "C12": 37, "C04": 40, "C09": 48, "C05": 51, "C02": 61, "C06": 61, "C08": 66}


PRIO = {
    "base_classes": "C03 C08 C19", "circle": "C10 C08 C06 C12 C14 C13 C03", "ellipse": "C10 C08 C06 C12 C14 C13 C03",
    "sphere": "C10 C08 C05 C12 C13 C03", "ellipsoid": "C10 C08 C05 C12 C13 C03", "convex_polygon": "C04 C13 C14 C06 C08",
    "convex_polyhedron": "C01 C08 C13 C05 C03 C16 C11 C07", "convex_spheropolygon": "C11 C14 C06 C08 C19 C03",
    "convex_spheropolyhedron": "C11 C05 C08 C03", "polygon": "C04 C09 C06 C15 C08 C12 C13 C03 C19",
    "polyhedron": "C02 C07 C08 C03 C12 C19 C20 C16 C05", "utils": "C01 C09 C10", "shape_getters": "C19", "io": "C20",
    "common": "C17 C18", "plane_shape_families": "C17 C18", "shape_family": "C17 C18", "tabulated_shape_family": "C18 C17",
    "doi_data_repositories": "C18 C17", "polytri": "C04 C02 C07",
}


def prio(rel, checks):
    pr = PRIO.get(os.path.basename(rel)[:-3], "").split()
    return sorted(checks, key=lambda c: (pr.index(c) if c in pr else 99, WALL[c]))


def cmd_gen():
    os.makedirs(MUT, exist_ok=True)
    cov = load_cov()
    allm = []
    for rel in FILES:
        ms = gen_file(rel)
        for m in ms:
            pr = PRIO.get(os.path.basename(rel)[:-3], "").split()
            m["checks"] = [c for c in prio(rel, set(cov.get((rel, m["line"]), []))) if c in pr][:6]
        allm += ms
    allm = [m for m in allm if m["checks"]]
    for i, m in enumerate(allm):
        m["id"] = i
    json.dump(allm, open(MUT + "/mutants.json", "w"))
    import collections
    print(len(allm), collections.Counter(m["kind"] for m in allm), collections.Counter(m["file"] for m in allm))


def run_checks(repo, out, checks, stride, procs):
    env = dict(os.environ, COXETER_REPO=repo, VERIF_OUT=out, VERIF_FAILFAST="1", VERIF_PROCS=str(procs), VERIF_MAX_LINES="3")
    if stride > 1:
        env["VERIF_STRIDE"] = str(stride)
    else:
        env.pop("VERIF_STRIDE", None)
    for c in checks:
        try:
            p = subprocess.run(["/verif/run", "check", c, "--tier", "quick"], env=env, capture_output=True, text=True, timeout=1500)
        except subprocess.TimeoutExpired:
            return c, "timeout"
        if p.returncode != 0:
            lines = [l for l in p.stdout.splitlines() if not l.startswith("[")]
            msg = " | ".join(l.strip()[:160] for l in lines[:2]) or (p.stderr.strip().splitlines() or ["?"])[-1][:200]
            return c, msg
    return None, None


def cmd_run(slot, nslots, every=1, procs=4):
    ms = json.load(open(MUT + "/mutants.json"))
    root = "%s/slot%d" % (MUT, slot)
    repo = root + "/repo"
    shutil.rmtree(root, ignore_errors=True)
    os.makedirs(repo)
    shutil.copytree(REPO + "/coxeter", repo + "/coxeter", ignore=shutil.ignore_patterns("__pycache__"))
    os.makedirs("/verif/mutation", exist_ok=True)
    resf = "/verif/mutation/results_%d.jsonl" % slot
    import glob
    done = set()
    for f in glob.glob("/verif/mutation/results_*.jsonl"):
        # identify finished mutants by position and replacement, not by id (ids shift when the mutant list is regenerated)
        done |= {(r["file"], r["line"], r["kind"], r["old"], r["new"]) for r in map(json.loads, open(f))}
    if every == 0:
        # mixed selection: every 2nd structural mutant, every 6th numeric-constant mutant
        sel = [m for m in ms if (m["kind"] != "const" and m["id"] % 2 == 0) or (m["kind"] == "const" and m["id"] % 6 == 0)]
    else:
        sel = [m for m in ms if m["id"] % every == 0]
    sel = [m for k, m in enumerate(sel) if k % nslots == slot]
    for m in sel:
        if (m["file"], m["line"], m["kind"], m["old"], m["new"]) in done:
            continue
        path = os.path.join(repo, m["file"])
        orig = open(os.path.join(REPO, m["file"]), "rb").read()
        mut = orig[: m["a"]] + m["new"].encode() + orig[m["b"]:]
        try:
            compile(mut, path, "exec")
        except SyntaxError:
            continue
        open(path, "wb").write(mut)
        t0 = time.time()
        try:
            imp = subprocess.run(["/venv/bin/python", "-c", "import sys; sys.path.insert(0, %r); import coxeter, coxeter.families, coxeter.shapes, coxeter.io, coxeter.shape_getters" % repo], capture_output=True, text=True, timeout=120)
            if imp.returncode != 0:
                res = {"status": "import-fails", "by": None, "msg": imp.stderr.strip().splitlines()[-1][:200]}
            else:
                by, msg = run_checks(repo, root + "/out", m["checks"], 8, procs)
                stage = 1
                if by is None:
                    by, msg = run_checks(repo, root + "/out", m["checks"], 1, procs)
                    stage = 2
                res = {"status": "killed" if by else "survived", "by": by, "stage": stage, "msg": msg}
        finally:
            open(path, "wb").write(orig)
        res.update({k: m[k] for k in ("id", "file", "line", "kind", "old", "new", "checks")})
        res["wall"] = round(time.time() - t0, 1)
        with open(resf, "a") as f:
            f.write(json.dumps(res) + "\n")
    shutil.rmtree(root, ignore_errors=True)


def cmd_recheck(slot, nslots, procs=3):
    """Survivors of the per-file check lists are run against every OTHER check that executes the mutated line
    (sub-sampled, stop at first violation).  Results: /verif/mutation/recheck_<slot>.jsonl"""
    import glob
    rs = []
    for f in sorted(glob.glob("/verif/mutation/results_*.jsonl")):
        rs += [json.loads(l) for l in open(f)]
    surv = [r for r in rs if r["status"] == "survived"]
    surv.sort(key=lambda r: (r["file"], r["line"], r["old"], r["new"]))
    cov = load_cov()
    root = "%s/re%d" % (MUT, slot)
    repo = root + "/repo"
    shutil.rmtree(root, ignore_errors=True)
    os.makedirs(repo)
    shutil.copytree(REPO + "/coxeter", repo + "/coxeter", ignore=shutil.ignore_patterns("__pycache__"))
    ms = {(m["file"], m["line"], m["kind"], m["old"], m["new"]): m for m in json.load(open(MUT + "/mutants.json"))}
    resf = "/verif/mutation/recheck_%d.jsonl" % slot
    for k, r in enumerate(surv):
        if k % nslots != slot:
            continue
        m = ms.get((r["file"], r["line"], r["kind"], r["old"], r["new"]))
        if m is None:
            continue
        extra = [c for c in sorted(set(cov.get((r["file"], r["line"]), [])), key=lambda c: WALL[c]) if c not in r["checks"]]
        path = os.path.join(repo, m["file"])
        orig = open(os.path.join(REPO, m["file"]), "rb").read()
        open(path, "wb").write(orig[: m["a"]] + m["new"].encode() + orig[m["b"]:])
        t0 = time.time()
        try:
            by, msg = run_checks(repo, root + "/out", extra, 4, procs)
        finally:
            open(path, "wb").write(orig)
        out = {k2: r[k2] for k2 in ("file", "line", "kind", "old", "new")}
        out.update({"extra_checks": extra, "status": "killed" if by else "survived", "by": by, "msg": msg, "wall": round(time.time() - t0, 1)})
        with open(resf, "a") as f:
            f.write(json.dumps(out) + "\n")
    shutil.rmtree(root, ignore_errors=True)


def cmd_report():
    import collections, glob
    rs = []
    for f in sorted(glob.glob("/verif/mutation/results_*.jsonl")):
        rs += [json.loads(l) for l in open(f)]
    c = collections.Counter(r["status"] for r in rs)
    print(len(rs), dict(c))
    by = collections.Counter(r["by"] for r in rs if r["status"] == "killed")
    print("killed by:", dict(by))
    rk = {}
    for f in sorted(glob.glob("/verif/mutation/recheck_*.jsonl")):
        for l in open(f):
            x = json.loads(l)
            rk[(x["file"], x["line"], x["kind"], x["old"], x["new"])] = x
    late = [x for x in rk.values() if x["status"] == "killed"]
    print("survivors of the per-file lists killed by another covering check:", len(late), dict(collections.Counter(x["by"] for x in late)))
    src_cache = {}
    for r in sorted(rs, key=lambda r: (r["file"], r["line"])):
        x = rk.get((r["file"], r["line"], r["kind"], r["old"], r["new"]))
        if r["status"] == "survived" and x is not None and x["status"] == "killed":
            continue
        if r["status"] == "survived":
            s = src_cache.setdefault(r["file"], open(os.path.join(REPO, r["file"])).read().split("\n"))
            print("SURVIVED #%d %s:%d [%s] %r -> %r   | %s" % (r["id"], r["file"], r["line"], r["kind"], r["old"][:40], r["new"][:40], s[r["line"] - 1].strip()[:110]))


if __name__ == "__main__":
    a = sys.argv[1]
    if a == "gen":
        cmd_gen()
    elif a == "run":
        cmd_run(int(sys.argv[2]), int(sys.argv[3]), int(sys.argv[4]) if len(sys.argv) > 4 else 1, int(sys.argv[5]) if len(sys.argv) > 5 else 4)
    elif a == "recheck":
        cmd_recheck(int(sys.argv[2]), int(sys.argv[3]), int(sys.argv[4]) if len(sys.argv) > 4 else 3)
    else:
        cmd_report()
