#!/bin/bash
# usage: tools/eval_table.sh <seed_table.json> [id-regex]  -> one eval_seed2 line per (seed, check listed under "det")
# FIRST_ONLY=1: only the first listed check of each seed (regression run)
t=$1; re=${2:-.}
/venv/bin/python - "$t" <<'PY' | grep -E "$re" | while read id checks; do /verif/tools/eval_seed2.sh /verif/seeded/$id $checks; done
import json, os, sys
for k, e in sorted(json.load(open(sys.argv[1])).items()):
    cs = e["det"].split(",")
    print(k, " ".join(cs[:1] if os.environ.get("FIRST_ONLY") else cs))
PY
