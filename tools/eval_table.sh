#!/bin/bash
# usage: tools/eval_table.sh <seed_table.json> [id-regex]  -> one eval_seed2 line per (seed, check listed under "det")
t=$1; re=${2:-.}
/venv/bin/python - "$t" <<'PY' | grep -E "$re" | while read id checks; do /verif/tools/eval_seed2.sh /verif/seeded/$id $checks; done
import json, sys
for k, e in sorted(json.load(open(sys.argv[1])).items()):
    print(k, " ".join(e["det"].split(",")))
PY
