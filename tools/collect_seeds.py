#!/venv/bin/python
"""Store the confirmed seeded changes under /verif/seeded/ and print the DESIGN.md table."""
import json, os, re, shutil, sys
# usage: collect_seeds.py [table.json id-prefix log...]   (default: waves 1+2)
TABLE = sys.argv[1] if len(sys.argv) > 1 else "/verif/tools/seed_table.json"
PREFIX = sys.argv[2] if len(sys.argv) > 2 else ""
LOGS = sys.argv[3:] or ["/tmp/wt/confirm_wave1.log", "/tmp/wt/confirm_wave2.log"]
tab = json.load(open(TABLE))
logs = ""
for f in LOGS:
    if os.path.exists(f):
        logs += open(f).read()
conf = {}
for ln in logs.splitlines():
    m = re.match(r"(C\d\d)/([ab]) (.*)", ln)
    if m:
        key = PREFIX + m.group(1) + m.group(2)
        ok = ("demo with patch exit=1, clean exit=0" in ln) and (re.search(r"tests\(no hypothesis deadline\): \s*\d+ passed", ln) or re.search(r"tests: \d+ passed", ln) or "retry: 2457 passed" in ln)
        if ok or key not in conf:
            conf[key] = (bool(ok), ln.strip())
rows = []
for sid, e in sorted(tab.items()):
    src = os.path.join("/tmp/wt", e["src"])
    ok, line = conf.get(sid, (False, "no confirmation line"))
    if not ok:
        print("NOT CONFIRMED:", sid, line[:200], file=sys.stderr)
        continue
    d = os.path.join("/verif/seeded", sid)
    os.makedirs(d, exist_ok=True)
    if os.path.isdir(src):
        for f in ("patch.diff", "demo.py", "notes.md"):
            shutil.copy(os.path.join(src, f), os.path.join(d, f))
    meta = {
        "id": sid, "breaks_property": e["p"],
        "origin": "independent sub-agent that was given only the property text and its own scratch worktree of /repo (nothing from /verif)",
        "needs_to_manifest": e["needs"],
        "confirmed": {"how": "in the scratch worktree /tmp/wt/%s: git apply patch.diff; pytest -q -p no:cacheprovider --timeout=900 -n 6|8 (hypothesis deadlines disabled through a -p plugin when the shared machine was loaded); demo.py with the patch (must exit 1) and on the clean tree (must exit 0)" % e["src"].split("/")[0], "log": line},
        "checks_run": "tools/eval_seed.sh <seed dir> <checks>: git -C /repo apply patch.diff; ./run check <id> --tier quick; git -C /repo checkout -- .",
        "detected_by": e["det"].split(","),
        "missed_before_strengthening": e["missed"],
    }
    json.dump(meta, open(os.path.join(d, "meta.json"), "w"), indent=1)
    rows.append("| %s | %s | %s | %s | %s |" % (sid, e["p"], e["needs"].replace("|", "/")[:150] + ("..." if len(e["needs"]) > 150 else ""), e["det"], "yes: " + e["missed"].split(". Strengthened:")[-1][:140] if "Strengthened" in e["missed"] else ("other check" if e["missed"] else "-")))
print("| seed | property | needs | reported by | check strengthened? |\n|---|---|---|---|---|")
print("\n".join(rows))
