#!/bin/bash
# usage: tools/fixcommit.sh "<commit message>"  - runs the pinned suite on /repo's working tree; commits only when it is green
set -e
cd /repo
out=$(/venv/bin/python -m pytest -q -p no:cacheprovider --timeout=900 -n 16 2>&1 | tail -1)
echo "$out"
if echo "$out" | grep -qE "(^|[ ,])[0-9]+ (failed|error)"; then
  echo "TESTS FAIL - not committing"; /venv/bin/python -m pytest -q -p no:cacheprovider --timeout=900 -n 16 2>&1 | grep -E "^FAILED" | head; exit 1
fi
git commit -qam "$1"
git log --oneline | head -1
