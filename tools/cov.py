#!/venv/bin/python
"""Which lines of /repo/coxeter do the checks execute?  (blind-spot finder, not a check)

usage: tools/cov.py Cxx [stride]   -> writes /tmp/vcov/Cxx.json {file: [executed lines]}
       tools/cov.py report         -> per file: lines executed by no check
"""
import importlib, json, os, sys

sys.path.insert(0, "/verif")
os.environ.setdefault("PYTHONHASHSEED", "0")
os.environ.setdefault("COXETER_VERIF", "1")
OUT = "/tmp/vcov"
os.makedirs(OUT, exist_ok=True)

if sys.argv[1] == "report":
    import coverage
    from coverage.python import PythonParser

    hit = {}
    for f in sorted(os.listdir(OUT)):
        if f.endswith(".json"):
            for k, v in json.load(open(os.path.join(OUT, f))).items():
                hit.setdefault(k, set()).update(v)
    for root, _, files in os.walk("/repo/coxeter"):
        for fn in sorted(files):
            if not fn.endswith(".py"):
                continue
            p = os.path.join(root, fn)
            pp = PythonParser(filename=p)
            pp.parse_source()
            stm = pp.statements - pp.excluded
            miss = sorted(stm - hit.get(p, set()))
            print("%-60s %4d/%4d missed" % (p[len("/repo/"):], len(miss), len(stm)))
            # compress to ranges
            rng, s = [], None
            for ln in miss:
                if s is None:
                    s = e = ln
                elif ln <= e + 2:
                    e = ln
                else:
                    rng.append((s, e)); s = e = ln
            if s is not None:
                rng.append((s, e))
            print("     " + " ".join("%d-%d" % r if r[0] != r[1] else str(r[0]) for r in rng))
    sys.exit(0)

import coverage

prop = sys.argv[1]
stride = int(sys.argv[2]) if len(sys.argv) > 2 else 1
cov = coverage.Coverage(source=["/repo/coxeter"], data_file=None)
cov.start()
from mc import common

common.bind_repo()
common.seed_all()
mod = importlib.import_module("mc.checks." + prop.lower())
if hasattr(mod, "init_worker"):
    mod.init_worker()
cs = mod.cases("quick")
n = 0
for i, c in enumerate(cs):
    if i % stride:
        continue
    try:
        mod.run_case(c)
    except Exception as ex:
        print("case raised", type(ex).__name__, ex, file=sys.stderr)
    n += 1
cov.stop()
d = cov.get_data()
res = {f: sorted(d.lines(f) or []) for f in d.measured_files()}
json.dump(res, open(os.path.join(OUT, prop + ".json"), "w"))
print(prop, "cases run", n, "of", len(cs))
