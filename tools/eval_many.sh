#!/bin/bash
# usage: tools/eval_many.sh "<seed rel dir under /tmp/wt> <check> [<check>...]" ...
for s in "$@"; do set -- $s; name=$1; d=/tmp/wt/$1; shift
  out=$(VERIF_PROCS=${VERIF_PROCS:-8} /verif/tools/eval_seed.sh $d "$@" 2>&1)
  e=$(echo "$out" | grep "^exit=" | tr '\n' ' ')
  echo "#### $name  demo(patched,clean): $e"
  echo "$out" | awk '/^\[C[0-9][0-9]\]/{chk=substr($1,2,3); n=0; print "  " chk ": " ($0 ~ /outcomes/ ? "" : "") ; next} /^   [a-z]/{ if (n<2) print "      " substr($0,1,200); n++ }'
done
