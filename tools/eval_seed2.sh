#!/bin/bash
# usage: tools/eval_seed2.sh <seed dir with patch.diff> C05 [C03 ...]
# Like eval_seed.sh but works on a scratch COPY of /repo's working tree (COXETER_REPO/VERIF_OUT), so /repo is never touched
# and several seeds can be evaluated at once.  For every check that reports a violation the first replay file is re-run
# against the patched copy (must still fail) and against /repo (must pass).  One summary line per check:
#   <seed> <check> DETECTED|missed  replay-on-patched=<0|1> replay-on-clean=<0|1>
d=$(readlink -f "$1"); shift
id=$(basename "$d"); [ "$id" = a -o "$id" = b ] && id=$(basename $(dirname $(dirname "$d")))$id
w=/tmp/ev/$id; rm -rf $w; mkdir -p $w/repo $w/out
cp -r /repo/coxeter $w/repo/coxeter; find $w/repo -name __pycache__ -prune -exec rm -rf {} +
(cd $w/repo && patch -s -p1 < "$d/patch.diff") || { echo "$id PATCH DOES NOT APPLY"; rm -rf $w; exit 2; }
for c in "$@"; do
  out=$(cd /verif && COXETER_REPO=$w/repo VERIF_OUT=$w/out VERIF_PROCS=${VERIF_PROCS:-8} ./run check $c 2>&1); rc=$?
  rp=$(echo "$out" | grep -m1 "^VIOLATION" | sed 's/.*replay=//')
  if [ -n "$rp" ]; then
    (cd /verif && COXETER_REPO=$w/repo ./run replay "$rp" >/dev/null 2>&1); r1=$?
    (cd /verif && ./run replay "$rp" >/dev/null 2>&1); r0=$?
    echo "$id $c DETECTED rc=$rc replay-on-patched=$r1 replay-on-clean=$r0 :: $(echo "$out" | grep -A1 -m1 "^VIOLATION" | tail -1 | cut -c1-200)"
  else
    echo "$id $c missed rc=$rc $(echo "$out" | grep -E "^\[" | cut -c1-80) $(echo "$out" | grep -v "^\[\|^KNOWN" | tail -1 | cut -c1-150)"
  fi
done
rm -rf $w
