#!/venv/bin/python
"""Regenerate MANIFEST.json from the check modules present under mc/checks."""
import importlib, json, os, sys
ROOT = os.path.dirname(os.path.dirname(os.path.abspath(__file__)))
sys.path.insert(0, ROOT)
props = [json.loads(l) for l in open(os.path.join(ROOT, "properties.jsonl"))]
ENG = {"E1": "explicit-state BFS over operation histories on live objects (state = canonical instance dictionary), invariant = agreement with a freshly constructed object",
       "E2": "bounded-exhaustive enumeration of input alphabet x placement group x query alphabet, each executed on the implementation and compared with an exact integer/rational reference model",
       "E3": "stateless choice-point / fault-schedule exploration with iterative deviation bounding over the miniball + rowan.random seams"}
checks, na = [], []
for p in props:
    pid = p["id"]
    path = os.path.join(ROOT, "mc", "checks", pid.lower() + ".py")
    if not os.path.exists(path):
        na.append({"property_id": pid, "reason": "check under construction in this session; not claimed until its quick command is silent on the unchanged tree"})
        continue
    src = open(path).read()
    ns = {}
    # read the metadata constants without importing coxeter
    for key in ("ENGINE", "LEVEL_TEXT", "LEVEL_NOTE", "TECHNIQUE", "DESIGN_REF"):
        import re
        m = re.search(r"^%s\s*=\s*(\(.*?\)|\".*?\"|'.*?')\s*$" % key, src, re.S | re.M)
        if m:
            ns[key] = eval(m.group(1))
    eng = ns.get("ENGINE", "E2")
    ENG.setdefault("E2+E3", ENG["E2"] + "; plus " + ENG["E3"])
    checks.append({
        "property_id": pid,
        "quick_cmd": "./run check %s --tier quick" % pid,
        "thorough_cmd": "./run check %s --tier thorough" % pid,
        "evidence_file": "/verif/evidence/%s.json" % pid,
        "replay_cmd_template": "./run replay {path}",
        "engine": eng,
        "level_claimed": {"category": "model_checking",
                          "text": ns.get("LEVEL_TEXT", "Every case of a finite, completely enumerated space (stated in the evidence under bounds) is executed on the real code and decided against an independent exact reference; silence means no counterexample exists inside the bound."),
                          "design_ref": ns.get("DESIGN_REF", "DESIGN.md section 2, " + pid)},
        "level_note": ns.get("LEVEL_NOTE", "Small-scope hypothesis outside the enumerated alphabets; trusted base: CPython integer/Fraction arithmetic, the harness's own reference code, numpy/scipy only as used by coxeter itself (qhull only as an exactly certified hint)."),
        "technique": ns.get("TECHNIQUE", ENG[eng]),
    })
man = {
    "version": 1,
    "setup_cmd": "./run setup",
    "hooks": {"guard": "COXETER_VERIF", "enable": "no source hooks are needed: every seam (miniball, rowan.random, random) is a module attribute replaced from the harness; ./run exports COXETER_VERIF=1 for symmetry",
              "baseline_off_cmd": "cd /repo && env -u COXETER_VERIF /venv/bin/python -m pytest -ra -q -p no:cacheprovider --timeout=900 --continue-on-collection-errors",
              "source_commits": [], "add_only": True},
    "engines": [
        {"name": "E1", "path": "mc/e1.py", "serves_properties": ["C03", "C08", "C16"], "kind_free_text": ENG["E1"]},
        {"name": "E2", "path": "mc/common.py + mc/exact.py + mc/alphabet.py", "serves_properties": [c["property_id"] for c in checks if "E2" in c["engine"]], "kind_free_text": ENG["E2"]},
        {"name": "E3", "path": "mc/e3.py", "serves_properties": ["C13"], "kind_free_text": ENG["E3"]},
    ],
    "checks": checks,
    "not_applicable": na,
    "notes": "Hand-written explicit-state / bounded-exhaustive explorers in Python (none is installed); spin/TLC/Apalache deliberately unused, see DESIGN.md section 0. Known findings: known_findings.json.",
}
json.dump(man, open(os.path.join(ROOT, "MANIFEST.json"), "w"), indent=1)
print("checks:", [c["property_id"] for c in checks], "not_applicable:", [n["property_id"] for n in na])
