#!/bin/bash
# usage: tools/eval_seed.sh <seed dir with patch.diff demo.py> C05 [C03 ...]
# applies the seeded change to /repo, runs the demonstration and the given quick checks, reverts, runs the demonstration again
d=$1; shift
cd /repo || exit 2
if ! git diff --quiet; then echo "/repo is dirty"; exit 2; fi
git apply "$d/patch.diff" || { echo "PATCH DOES NOT APPLY"; exit 2; }
echo "== demo with patch:"; (cd /tmp && timeout 600 /venv/bin/python "$d/demo.py" 2>&1 | tail -3; echo "exit=${PIPESTATUS[0]}")
for c in "$@"; do
  out=$(cd /verif && ./run check $c 2>&1)
  echo "$out" | grep -E "^\[" | cut -c1-120
  echo "$out" | grep -A1 "^VIOLATION" | grep -v "^--" | grep -v "^VIOLATION" | cut -c1-230 | head -5
done
git -C /repo checkout -- . ; git -C /repo status --short
echo "== demo on clean tree:"; (cd /tmp && timeout 600 /venv/bin/python "$d/demo.py" 2>&1 | tail -2; echo "exit=${PIPESTATUS[0]}")
