#!/bin/bash
# usage: tools/try_seed.sh <patch.diff> C01 [C03 ...]   - apply a seeded change to /repo, run the quick checks, revert
patch=$1; shift
cd /repo || exit 2
if ! git diff --quiet; then echo "/repo is dirty"; exit 2; fi
git apply "$patch" || { echo "patch does not apply"; exit 2; }
for c in "$@"; do
  out=$(cd /verif && ./run check $c 2>&1)
  echo "$out" | grep -E "^\[" 
  echo "$out" | grep -A1 "^VIOLATION" | grep -v "^--" | cut -c1-260 | head -8
done
git -C /repo checkout -- . && git -C /repo status --short
